package wiresim

import (
	"verif/sim/core"
)

// Generate draws the plan. All randomness of a run is consumed here: which
// kinds are exercised, the seeds their field contents derive from, every
// corruption position and mask, the link's fragmentation and delay pattern,
// timeouts and how the peer ends the connection.
//
//	C02  probe of every decoder + deep fault enumeration on a few kinds
//	C04  sweep of every kind (round trip, hash, transport) + decoded-corrupted corpus
//	C35  sessions with per-frame faults + header / truncation / declared-length enumeration
//	C15  (send-cache half) block messages served to several peers through WriteMessage's cache
func (Engine) Generate(r *core.Rng, property, tier string) *core.Plan {
	p := &core.Plan{Knobs: map[string]int64{}, Meta: map[string]string{}}
	g := &planGen{r: r, p: p, tier: tier}
	// network magics differ per run: correctness must not hinge on one value
	p.SetKnob("magic_ela", int64(2017001+r.Intn(4)*1000000+r.Intn(7)))
	p.SetKnob("magic_dpos", int64(2019000+r.Intn(4)*1000000+r.Intn(7)))
	switch property {
	case "C04":
		g.c04()
	case "C35":
		g.c35()
	case "C15":
		g.c15()
	default:
		g.c02()
	}
	return p
}

type planGen struct {
	r    *core.Rng
	p    *core.Plan
	tier string
}

func (g *planGen) flips(n int) []flip {
	out := make([]flip, 0, n)
	for i := 0; i < n; i++ {
		f := flip{Pos: uint32(g.r.U64()), Mask: byte(1 << uint(g.r.Intn(8)))}
		switch g.r.Intn(6) {
		case 0:
			f.Mask = byte(g.r.Range(1, 255))
		case 1: // turn the byte into a varint discriminant and overwrite what follows
			f.Mask = byte(g.r.Range(1, 255))
			f.Run = g.r.Range(1, 8)
			f.Fill = []byte{0x00, 0xff, 0xfd, 0xfe, 0x7f, 0x80}[g.r.Intn(6)]
		}
		out = append(out, f)
	}
	return out
}

// link draws a delivery pattern. gentle keeps delays small enough that a
// frame of a few KiB never reaches the read deadline.
func (g *planGen) link(gentle bool) link {
	r := g.r
	var l link
	switch r.Intn(6) {
	case 0: // whole stream at once
	case 1:
		l.Frag = []int{1}
	case 2:
		l.Frag = []int{1, 2, 3, 5, 8, 13}
	case 3:
		for i, n := 0, r.Range(2, 6); i < n; i++ {
			l.Frag = append(l.Frag, int(r.LogUniform(1, 256)))
		}
	case 4:
		l.Frag = []int{23, 1, 24, 25} // around the 24-byte header
	default:
		for i, n := 0, r.Range(1, 3); i < n; i++ {
			l.Frag = append(l.Frag, int(r.LogUniform(256, 8192)))
		}
	}
	if r.Bool(0.6) {
		max := int64(20)
		if !gentle && r.Bool(0.3) {
			max = 5000
		}
		for i, n := 0, r.Range(1, 4); i < n; i++ {
			l.DelayMs = append(l.DelayMs, r.Int63n(max+1))
		}
		if gentle && len(l.Frag) > 0 {
			// keep the number of delayed chunks per frame moderate
			for i := range l.Frag {
				if l.Frag[i] < 16 {
					l.Frag[i] += 16
				}
			}
		}
	}
	l.End = r.Pick(4, 4, 1)
	return l
}

func (g *planGen) timeoutS() int64 {
	switch g.r.Intn(4) {
	case 0:
		return int64(g.r.Range(2, 60))
	case 1:
		return 30
	default:
		return 0 // the node's ReadMessageTimeOut
	}
}

func (g *planGen) anyKind(filter func(k *kind) bool) *kind {
	for try := 0; try < 200; try++ {
		k := catalog[g.r.Intn(len(catalog))]
		if filter == nil || filter(k) {
			return k
		}
	}
	return catalog[0]
}

// weightedKind spreads deep steps over the classes instead of over the raw
// catalogue (where transaction variants dominate).
func (g *planGen) weightedKind() *kind {
	classes := []string{"tx", "tx", "tx", "p2p", "dpos", "block", "misc", "output"}
	cl := classes[g.r.Intn(len(classes))]
	return g.anyKind(func(k *kind) bool { return k.class == cl })
}

func (g *planGen) netOf(k *kind) string {
	switch {
	case k.ela && k.dpos:
		if g.r.Bool(0.5) {
			return "ela"
		}
		return "dpos"
	case k.ela:
		return "ela"
	case k.dpos:
		return "dpos"
	}
	return ""
}

func (g *planGen) deepStep() Step {
	k := g.weightedKind()
	st := Step{Op: "deep", Kind: k.name, Seed: g.r.U64(), Flips: g.flips(g.r.Range(4, 14)), Stride: g.r.Range(2, 9)}
	if g.r.Bool(0.7) {
		st.Cross = g.r.Range(1, len(catalog)-1)
	}
	st.Net = g.netOf(k)
	st.Link = g.link(true)
	st.TimeoutS = g.timeoutS()
	return st
}

func (g *planGen) c02() {
	// how many face-value decodes of inputs whose clamped form over-allocates
	// are confirmed in a child process (a process start costs ~0.4 s)
	if g.r.Intn(3) == 0 {
		g.p.SetKnob("confirm_in_child", 1)
		g.p.SetKnob("confirm_skip_sites", int64(g.r.Intn(8))) // which of the run's over-allocating sites
	}
	parts := 2
	if g.tier == "thorough" {
		parts = 1
	}
	g.p.Add(Step{Op: "probe", Seed: g.r.U64(), Flips: g.flips(2), Part: g.r.Intn(parts), Parts: parts})
	n := 2
	if g.tier == "thorough" {
		n = g.r.Range(2, 5)
	}
	for i := 0; i < n; i++ {
		g.p.Add(g.deepStep())
	}
}

func (g *planGen) c04() {
	g.p.Add(Step{Op: "sweep", Seed: g.r.U64(), Link: g.link(true), Parts: 1})
	g.p.Meta["stratum"] = "sweep+corpus"
	// decoded-corrupted corpus for the idempotence clause
	n := 1
	if g.tier == "thorough" {
		n = g.r.Range(1, 3)
	}
	for i := 0; i < n; i++ {
		st := g.deepStep()
		// transactions, blocks and payload-carrying kinds are what C04 is about
		k := g.anyKind(func(k *kind) bool { return k.class == "tx" || k.class == "block" || k.class == "output" || k.class == "misc" })
		st.Kind, st.Net = k.name, g.netOf(k)
		g.p.Add(st)
	}
	g.p.Add(Step{Op: "probe", Seed: g.r.U64(), Flips: g.flips(3), Part: g.r.Intn(3), Parts: 3})
}

var frameFaults = []string{"linkflip", "byzflip", "hdrflip", "declen", "oversize", "magic", "unkcmd", "trunc", "stall", "dup", "swap"}

func (g *planGen) frame(net string, fault bool) Frame {
	r := g.r
	k := g.anyKind(func(k *kind) bool {
		if k.wrap == nil {
			return false
		}
		carried := (net == "ela" && k.ela) || (net == "dpos" && k.dpos)
		// now and then a defined message type this network does not carry
		return carried || (r.Intn(40) == 0 && (k.class == "p2p" || k.class == "dpos"))
	})
	// messages rather than the many transaction variants, most of the time
	if k.class == "tx" && r.Bool(0.6) {
		k = g.anyKind(func(k *kind) bool {
			return (k.class == "p2p" || k.class == "dpos" || k.class == "block") && ((net == "ela" && k.ela) || (net == "dpos" && k.dpos))
		})
	}
	f := Frame{Kind: k.name, Seed: r.U64()}
	if fault {
		f.Fault = frameFaults[r.Intn(len(frameFaults))]
		f.A = uint32(r.U64())
		f.M = byte(1 << uint(r.Intn(8)))
		if r.Bool(0.3) {
			f.M = byte(r.Range(1, 255))
		}
		f.V = boundaryValues[r.Intn(len(boundaryValues))] & 0xffffffff
		if r.Bool(0.3) {
			f.V = uint64(r.LogUniform(1, 1<<31))
		}
	}
	return f
}

func (g *planGen) c35() {
	r := g.r
	faultFree := r.Intn(6) == 0 // stratum without any fault: every frame must come back equal
	if faultFree {
		g.p.Meta["stratum"] = "fault-free"
	} else {
		g.p.Meta["stratum"] = "faults"
	}
	// every command of both networks over one connection each, link-level
	// fragmentation and delay only
	for _, net := range []string{"ela", "dpos"} {
		var frames []Frame
		for _, k := range catalog {
			if (k.class == "p2p" || k.class == "dpos" || k.class == "block") && ((net == "ela" && k.ela) || (net == "dpos" && k.dpos)) {
				frames = append(frames, Frame{Kind: k.name, Seed: r.U64()})
			}
		}
		for i := 0; i < 3; i++ {
			k := g.anyKind(func(k *kind) bool { return k.class == "tx" })
			frames = append(frames, Frame{Kind: k.name, Seed: r.U64()})
		}
		// sent in a seeded order
		perm := r.Perm(len(frames))
		shuffled := make([]Frame, len(frames))
		for i, j := range perm {
			shuffled[i] = frames[j]
		}
		g.p.Add(Step{Op: "session", Net: net, Frames: shuffled, Link: g.link(true), TimeoutS: 0})
	}
	// sessions with faults
	ns := r.Range(4, 9)
	if g.tier == "thorough" {
		ns = r.Range(6, 16)
	}
	for s := 0; s < ns; s++ {
		net := "ela"
		if r.Bool(0.45) {
			net = "dpos"
		}
		st := Step{Op: "session", Net: net, Link: g.link(false), TimeoutS: g.timeoutS()}
		nf := r.Range(1, 5)
		faultAt := r.Intn(nf)
		for i := 0; i < nf; i++ {
			st.Frames = append(st.Frames, g.frame(net, !faultFree && (i == faultAt || r.Intn(5) == 0)))
		}
		g.p.Add(st)
	}
	if faultFree {
		return
	}
	// enumerations inside the run
	pickFramed := func(small bool) (*kind, string) {
		for {
			k := g.anyKind(func(k *kind) bool { return k.wrap != nil && (k.ela || k.dpos) })
			if small && k.class == "tx" && r.Bool(0.7) {
				continue
			}
			return k, g.netOf(k)
		}
	}
	k, net := pickFramed(true)
	g.p.Add(Step{Op: "hdrenum", Kind: k.name, Net: net, Seed: r.U64(), Link: g.enumLink(), TimeoutS: g.timeoutS(), EndKind: r.Intn(2)})
	k, net = pickFramed(false)
	g.p.Add(Step{Op: "truncenum", Kind: k.name, Net: net, Seed: r.U64(), Link: g.enumLink(), TimeoutS: g.timeoutS(), EndKind: r.Intn(5), Stride: r.Range(2, 11)})
	k, net = pickFramed(false)
	g.p.Add(Step{Op: "declen", Kind: k.name, Net: net, Seed: r.U64(), Link: g.enumLink(), TimeoutS: g.timeoutS(), EndKind: r.Intn(2)})
}

// enumLink: fragmentation without delays (the enumerations judge the deadline
// exactly, so the link itself must not add time).
func (g *planGen) enumLink() link {
	l := g.link(true)
	l.DelayMs = nil
	return l
}

// c15 draws the send-cache workload: families of 1..6 blocks served to 1..4
// peers, more distinct (block, confirmed) keys than the cache holds, resends
// while cached and after eviction, a block gaining its confirmation between
// two sends, slow peers holding a served payload while others evict it,
// stalled peers, unrelated messages in between.
func (g *planGen) c15() {
	r := g.r
	faultFree := r.Intn(5) == 0 // one peer, a healthy link
	if faultFree {
		g.p.Meta["stratum"] = "fault-free"
	} else {
		g.p.Meta["stratum"] = "faults"
	}
	ns := r.Range(2, 4)
	if g.tier == "thorough" {
		ns = r.Range(3, 8)
	}
	for s := 0; s < ns; s++ {
		st := Step{Op: "sendcache", Seed: r.U64(), NBlk: r.Pick(2, 2, 3, 3, 2, 1) + 1, Peers: r.Range(1, 4)}
		if faultFree {
			st.Peers = 1
		}
		n := r.Range(6, 40)
		monotone := r.Bool(0.5)
		confirmed := make([]bool, st.NBlk)
		t := int64(0)
		for i := 0; i < n; i++ {
			sd := Send{Blk: r.Intn(st.NBlk), Peer: r.Intn(st.Peers)}
			switch r.Intn(4) {
			case 0: // the same block again
				if i > 0 {
					sd.Blk = st.Sends[i-1].Blk
				}
			case 1: // the one before
				if i > 1 {
					sd.Blk = st.Sends[i-2].Blk
				}
			}
			if monotone {
				if !confirmed[sd.Blk] && r.Bool(0.3) {
					confirmed[sd.Blk] = true
				}
				sd.Confirm = confirmed[sd.Blk]
			} else {
				sd.Confirm = r.Bool(0.5)
			}
			t += int64(r.Pick(3, 3, 2, 1)) * int64(r.Range(0, 40))
			sd.SlotMs = t
			if !faultFree {
				if r.Bool(0.25) {
					sd.SlowMs = int64(r.LogUniform(1, 5000))
				}
				if r.Intn(25) == 0 {
					sd.Stall = true
				}
			}
			sd.Other = r.Intn(6) == 0
			st.Sends = append(st.Sends, sd)
		}
		g.p.Add(st)
	}
}
