package wiresim

import (
	"net"
	"reflect"
	"strings"
	"time"

	"github.com/elastos/Elastos.ELA/crypto"

	"verif/sim/core"
)

// gen is the seeded field generator. Every value the simulated senders put on
// the wire is a pure function of the step's seed: Execute re-derives it from
// plan data, Generate only draws the seeds.
type gen struct {
	r    *core.Rng
	keys [][]byte // compressed public keys derived from the seed (real curve points)
}

func newGen(seed uint64) *gen {
	return &gen{r: core.NewRng(seed)}
}

// pubKey returns one of a few real compressed secp256r1 public keys whose
// private keys derive from the step seed (never from crypto/rand).
func (g *gen) pubKey() []byte {
	if g.keys == nil {
		for i := 0; i < 3; i++ {
			priv := g.r.Bytes(32)
			priv[0] &= 0x7f
			priv[31] |= 1
			pk := crypto.NewPubKey(priv)
			b, err := pk.EncodePoint(true)
			if err != nil || len(b) != 33 {
				b = append([]byte{2}, g.r.Bytes(32)...)
			}
			g.keys = append(g.keys, b)
		}
	}
	k := g.keys[g.r.Intn(len(g.keys))]
	return append([]byte(nil), k...)
}

func (g *gen) u64() uint64 {
	switch g.r.Intn(10) {
	case 0:
		return 0
	case 1:
		return 1
	case 2:
		return ^uint64(0)
	case 3:
		return 1 << 63
	case 4:
		return uint64(g.r.Intn(0x200))
	default:
		return g.r.U64()
	}
}

const asciiAlphabet = "abcdefghijklmnopqrstuvwxyzABCDEFGHIJKLMNOPQRSTUVWXYZ0123456789-_.:/ "

func (g *gen) str(max int) string {
	n := 0
	switch g.r.Intn(12) {
	case 0:
		n = 0
	case 1:
		n = max
	case 2:
		n = g.r.Range(0, max)
	default:
		n = g.r.Range(1, 24)
	}
	if n > max {
		n = max
	}
	b := make([]byte, n)
	for i := range b {
		b[i] = asciiAlphabet[g.r.Intn(len(asciiAlphabet))]
	}
	return string(b)
}

// bytesFor picks a byte string for a field by its name: keys are real points,
// signatures are 64 random bytes (no decoder verifies them; real signing would
// draw nonces from crypto/rand), bulk data fields sometimes cross the 0xfd
// varint boundary.
func (g *gen) bytesFor(name string) []byte {
	ln := strings.ToLower(name)
	switch {
	case strings.Contains(ln, "sign") && !strings.Contains(ln, "signer"):
		switch g.r.Intn(8) {
		case 0:
			return []byte{}
		case 1:
			return g.r.Bytes(g.r.Range(1, 64))
		default:
			return g.r.Bytes(64)
		}
	case strings.Contains(ln, "key") || strings.Contains(ln, "sponsor") || strings.Contains(ln, "signer") ||
		strings.Contains(ln, "candidate") || ln == "arbitrators":
		switch g.r.Intn(8) {
		case 0:
			return g.r.Bytes(g.r.Range(0, 33))
		default:
			return g.pubKey()
		}
	case strings.Contains(ln, "data") || strings.Contains(ln, "content") || ln == "code" || ln == "parameter" ||
		strings.Contains(ln, "header") || strings.Contains(ln, "confirm") || ln == "filter":
		switch g.r.Intn(10) {
		case 0:
			return []byte{}
		case 1:
			return g.r.Bytes(g.r.Range(250, 260)) // around the 0xfd varint boundary
		case 2:
			return g.r.Bytes(g.r.Range(253, 700))
		default:
			return g.r.Bytes(g.r.Range(1, 80))
		}
	default:
		switch g.r.Intn(10) {
		case 0:
			return []byte{}
		default:
			return g.r.Bytes(g.r.Range(1, 40))
		}
	}
}

var (
	timeType = reflect.TypeOf(time.Time{})
	ipType   = reflect.TypeOf(net.IP{})
)

// fill sets every exported field of v (addressable) to seeded contents.
// Interface fields are left nil for the kind-specific builder.
func (g *gen) fill(v reflect.Value, name string, depth int) {
	if !v.CanSet() {
		return
	}
	t := v.Type()
	switch {
	case t == timeType:
		// whole seconds within uint32 range: the coarsest wire form
		v.Set(reflect.ValueOf(time.Unix(int64(uint32(g.u64()>>33)), 0)))
		return
	case t == ipType:
		if g.r.Bool(0.5) {
			v.Set(reflect.ValueOf(net.IP(g.r.Bytes(16))))
		} else {
			b := g.r.Bytes(4)
			v.Set(reflect.ValueOf(net.IPv4(b[0], b[1], b[2], b[3])))
		}
		return
	}
	switch v.Kind() {
	case reflect.Bool:
		v.SetBool(g.r.Bool(0.5))
	case reflect.Uint8, reflect.Uint16, reflect.Uint32, reflect.Uint64, reflect.Uint:
		x := g.u64()
		v.SetUint(x & (^uint64(0) >> (64 - uint(t.Bits()))))
	case reflect.Int8, reflect.Int16, reflect.Int32, reflect.Int64, reflect.Int:
		x := g.u64()
		sh := 64 - uint(t.Bits())
		v.SetInt(int64(x<<sh) >> sh)
	case reflect.String:
		v.SetString(g.str(300))
	case reflect.Array:
		if t.Elem().Kind() == reflect.Uint8 {
			b := g.r.Bytes(v.Len())
			if g.r.Intn(16) == 0 {
				for i := range b {
					b[i] = 0
				}
			}
			reflect.Copy(v, reflect.ValueOf(b))
			return
		}
		for i := 0; i < v.Len(); i++ {
			g.fill(v.Index(i), name, depth+1)
		}
	case reflect.Slice:
		if t.Elem().Kind() == reflect.Uint8 && t.Elem().PkgPath() == "" {
			v.SetBytes(g.bytesFor(name))
			return
		}
		n := g.r.Pick(2, 4, 3, 2, 1)
		if depth > 3 && n > 2 {
			n = 2
		}
		s := reflect.MakeSlice(t, n, n)
		for i := 0; i < n; i++ {
			g.fill(s.Index(i), name, depth+1)
		}
		v.Set(s)
	case reflect.Ptr:
		p := reflect.New(t.Elem())
		g.fill(p.Elem(), name, depth+1)
		v.Set(p)
	case reflect.Struct:
		for i := 0; i < v.NumField(); i++ {
			f := t.Field(i)
			if f.PkgPath != "" { // unexported: caches, never on the wire
				continue
			}
			g.fill(v.Field(i), f.Name, depth+1)
		}
	}
}

// fillNew allocates a value of the pointed-to type of proto and fills it.
func (g *gen) fillPtr(p interface{}) {
	g.fill(reflect.ValueOf(p).Elem(), "", 0)
}
