package wiresim

import (
	"bytes"
	"crypto/sha256"
	"encoding/hex"
	"encoding/json"
	"fmt"
	"strings"

	"github.com/elastos/Elastos.ELA/dpos"
	dpeer "github.com/elastos/Elastos.ELA/dpos/p2p/peer"
	dmsg "github.com/elastos/Elastos.ELA/dpos/p2p/msg"
	"github.com/elastos/Elastos.ELA/elanet"
	"github.com/elastos/Elastos.ELA/p2p"
	ppeer "github.com/elastos/Elastos.ELA/p2p/peer"

	"verif/sim/core"
)

type exec struct {
	c    *core.Ctx
	prop string

	elaFactory  p2p.CreateMessage
	dposFactory p2p.CreateMessage
	savedDposPV uint32

	reported   map[string]bool
	siteBudget int
	sampled    bool
	badClamped map[[32]byte]decodeResult
	canary      int // 0 not run, 1 passed, 2 failed
	confirmSkip int
	confirmLeft int
	confirmed   map[string]bool
	frames     map[string]*builtFrame
	regs       map[string]map[string]bool
	maxLens    map[string]uint64

	// outcome tallies for the event log
	nOK, nErr, nPanic, nOver, nSkip int
}

func newExec(c *core.Ctx) *exec {
	x := &exec{c: c, prop: c.Plan.Property, reported: map[string]bool{}, siteBudget: 32,
		badClamped: map[[32]byte]decodeResult{}, confirmed: map[string]bool{}, confirmLeft: int(c.Plan.Knob("confirm_in_child", 0)), confirmSkip: int(c.Plan.Knob("confirm_skip_sites", 0)), frames: map[string]*builtFrame{}, regs: map[string]map[string]bool{}, maxLens: map[string]uint64{}}
	// exactly the factories Peer.readMessage hands to p2p.ReadMessage
	x.elaFactory = ppeer.VerifWireCreateMessage(elanet.VerifWireCreateMessage)
	x.dposFactory = dpeer.VerifWireCreateMessage(dpos.VerifWireCreateMessage)
	x.savedDposPV = dmsg.GetPayloadVersion()
	return x
}

func (x *exec) restore() { dmsg.SetPayloadVersion(x.savedDposPV) }

func (x *exec) finish() {}

// family groups kinds that share one decoder entry point (signatures name
// the entry point, not the proposal-type variant).
func family(name string) string {
	parts := strings.Split(name, "/")
	switch parts[0] {
	case "tx":
		if len(parts) >= 3 {
			return strings.Join(parts[:3], "/")
		}
	case "misc":
		if len(parts) >= 3 {
			return strings.Join(parts[:3], "/")
		}
	}
	return name
}

func hexEncode(b []byte) string          { return hex.EncodeToString(b) }
func hexDecode(s string) ([]byte, error) { return hex.DecodeString(s) }

func hexShort(b []byte, max int) string {
	if len(b) <= max {
		return hex.EncodeToString(b)
	}
	return hex.EncodeToString(b[:max]) + fmt.Sprintf("...(%d bytes)", len(b))
}

// rawPlan is the self-contained replay of one finding: a single step that
// feeds exactly these bytes to exactly this decoder.
func (x *exec) rawPlan(st Step, what string) *core.Plan {
	p := &core.Plan{Knobs: map[string]int64{}, Meta: map[string]string{"replay": what}}
	for k, v := range x.c.Plan.Knobs {
		p.Knobs[k] = v
	}
	b, _ := json.Marshal(st)
	p.Steps = []json.RawMessage{b}
	return p
}

func (x *exec) violateRaw(prop, oracle, sig string, st Step, format string, a ...interface{}) {
	if x.reported[prop+sig] {
		x.c.Violate(prop, oracle, sig, format, a...)
		return
	}
	x.reported[prop+sig] = true
	x.c.ViolatePlan(x.rawPlan(st, sig), prop, oracle, sig, format, a...)
}

// setDposPV selects the global DPoS payload version a kind is encoded under.
func (x *exec) setDposPV(k *kind) {
	if k.dposPV >= 0 {
		dmsg.SetPayloadVersion(uint32(k.dposPV))
	}
}

// ---------------------------------------------------------------------------
// C02: guarded decode + oracles

// guard decodes b with dk's real decoder: safety pre-flight first (see
// clampReader), then at face value. Every decode performed is judged by the
// C02 oracles. It returns the result of the last decode performed, the input
// that result belongs to, and whether that was the face-value input.
func (x *exec) guard(dk *kind, b []byte) (decodeResult, []byte, bool) {
	x.setDposPV(dk)
	// clamp levels: (cap for 32/64-bit integers, cap for 16-bit integers)
	levels := [...][2]uint64{{1 << 16, 256}, {1 << 16, 0}, {1 << 20, 0}, {1 << 26, 0}}
	var prev []byte
	for i, lv := range levels {
		x1, subst, complete := clampTrace(dk.dec, b, lv[0], lv[1])
		if !complete {
			x.nSkip++
			x.c.Probe("face-value-decode-skipped-preflight-incomplete")
			return decodeResult{err: errSkipped}, b, false
		}
		if !subst {
			break // nothing above this level's caps: the face value is as harmless
		}
		if prev != nil && bytes.Equal(prev, x1) {
			continue
		}
		prev = x1
		// all larger values of one field clamp to the same bytes: judge them once
		key := sha256.Sum256(append([]byte(dk.name+"|"), x1...))
		if r0, seen := x.badClamped[key]; seen {
			x.nSkip++
			x.c.Probe("face-value-decode-skipped-clamped-form-already-judged")
			return r0, x1, false
		}
		r1 := runDecode(dk.decode, x1, true)
		bad, site := x.judgeSite(dk, x1, r1)
		if bad {
			r1.val = nil
			x.badClamped[key] = r1
			x.nSkip++
			x.c.Probe("face-value-decode-skipped-after-clamped-violation")
			// what do the face-value bytes do to a node? (child process, a few times per run)
			if site != "" && !r1.panicked && x.confirmLeft > 0 && !x.confirmed[site] {
				if x.confirmSkip > 0 {
					x.confirmSkip--
					x.confirmed[site] = true
				} else {
					x.confirmLeft--
					x.confirmed[site] = true
					x.confirmCrash(dk, b, site)
				}
			}
			return r1, x1, false
		}
		if i >= 1 && r1.alloc < lv[0] {
			break // no clamped integer sizes an allocation: on to the face value
		}
		if i == len(levels)-1 {
			x.nSkip++
			x.c.Probe("face-value-decode-skipped-count-proportional")
			return r1, x1, false
		}
	}
	// face value; the reader gives up on a decoder that keeps asking for data
	// long after the input ended (an error-ignoring loop over a wire count)
	dec := dk.decode
	if dk.decBuf == nil {
		dec = func(b []byte) (interface{}, error) { return dk.dec(&eofGuardReader{r: bytes.NewReader(b)}) }
	}
	r := runDecode(dec, b, true)
	if r.panicked && r.panicText == eofLoopText {
		x.nSkip++
		x.c.Probe("face-value-decode-aborted-loop-past-end-of-input")
		return decodeResult{err: errSkipped}, b, false
	}
	x.judge(dk, b, r)
	return r, b, true
}

var errSkipped = errorString("wiresim: decode not completed")

// judge applies the C02 oracles to one decode. It reports whether the decode
// violated the property.
func (x *exec) judge(dk *kind, in []byte, r decodeResult) bool {
	bad, _ := x.judgeSite(dk, in, r)
	return bad
}

// judgeSite is judge, also returning the allocation site of an over-allocation.
func (x *exec) judgeSite(dk *kind, in []byte, r decodeResult) (bool, string) {
	c := x.c
	bad := false
	overSite := ""
	c.Check() // returns (value|error), never panics
	if r.panicked {
		bad = true
		x.nPanic++
		sig := "C02/panic/" + r.panicSite + "/" + panicClass(r.panicText)
		min := in
		if !x.reported["C02"+sig] {
			site := r.panicSite
			min = x.minimise(dk, in, func(rr decodeResult, n int) bool { return rr.panicked && rr.panicSite == site })
		}
		x.violateRaw("C02", "decode-never-panics", sig, Step{Op: "raw", Kind: dk.name, Hex: hex.EncodeToString(min)},
			"decoder %s panicked at %s: %s; input (%d bytes) %s", family(dk.name), r.panicSite, r.panicText, len(min), hexShort(min, 160))
	}
	c.Check() // allocation bounded by 64*len+64KiB
	if bound := allocBound(len(in)); r.alloc > bound {
		bad = true
		x.nOver++
		if x.siteBudget <= 0 {
			c.Probe("overalloc-not-attributed-site-budget-exhausted")
			return bad, ""
		}
		x.siteBudget--
		site := allocSite(dk.decode, in)
		overSite = site
		sig := "C02/overalloc/" + site
		min := in
		if !x.reported["C02"+sig] {
			min = x.minimise(dk, in, func(rr decodeResult, n int) bool { return rr.alloc > allocBound(n) })
			if len(min) != len(in) && allocSite(dk.decode, min) != site {
				min = in
			}
		}
		rr := runDecode(dk.decode, min, true)
		x.violateRaw("C02", "alloc-bounded-by-input", sig, Step{Op: "raw", Kind: dk.name, Hex: hex.EncodeToString(min)},
			"decoder %s allocated %d bytes for a %d-byte input (bound 64*len+64KiB = %d), mostly in %s; input %s",
			family(dk.name), rr.alloc, len(min), allocBound(len(min)), site, hexShort(min, 160))
	}
	if !bad {
		if r.err != nil {
			x.nErr++
		} else {
			x.nOK++
		}
	}
	return bad, overSite
}

// minimise shortens a violating input from the tail while the violation
// persists (a few dozen decodes; inputs here already passed the pre-flight or
// are its clamped form, so prefixes of them are as safe).
func (x *exec) minimise(dk *kind, in []byte, still func(r decodeResult, n int) bool) []byte {
	// shortest violating prefix by bisection: a decoder allocates (or panics)
	// right after it has read the offending count, so longer prefixes keep
	// violating; the result is verified and discarded otherwise.
	lo, hi := 0, len(in)
	for lo < hi {
		mid := (lo + hi) / 2
		if still(runDecode(dk.decode, in[:mid], true), mid) {
			hi = mid
		} else {
			lo = mid + 1
		}
	}
	if hi < len(in) && still(runDecode(dk.decode, in[:hi], true), hi) {
		return append([]byte(nil), in[:hi]...)
	}
	return append([]byte(nil), in...)
}

// ---------------------------------------------------------------------------

func (x *exec) step(st *Step) {
	c := x.c
	before := [5]int{x.nOK, x.nErr, x.nPanic, x.nOver, x.nSkip}
	switch st.Op {
	case "sweep":
		x.sweep(st)
	case "sweepone":
		if k := kindByName(st.Kind); k != nil {
			x.c.Fault("replayed-value")
			x.roundTrip(k, st.Seed)
		}
	case "probe":
		x.probeAll(st)
	case "deep":
		x.deep(st)
	case "raw":
		x.raw(st)
	case "crash":
		if k := kindByName(st.Kind); k != nil {
			if b, err := hexDecode(st.Hex); err == nil {
				x.c.Fault("raw-input")
				x.confirmCrash(k, b, st.Site)
			}
		}
	case "session":
		x.session(st)
	case "hdrenum":
		x.hdrEnum(st)
	case "truncenum":
		x.truncEnum(st)
	case "declen":
		x.decLen(st)
	case "rawframe":
		x.rawFrame(st)
	case "sendcache":
		x.sendCache(st)
	default:
		panic("wiresim: unknown step op " + st.Op)
	}
	c.Logf("step %s kind=%s decodes ok=%d err=%d panic=%d over=%d skipped=%d", st.Op, st.Kind,
		x.nOK-before[0], x.nErr-before[1], x.nPanic-before[2], x.nOver-before[3], x.nSkip-before[4])
}

func (x *exec) raw(st *Step) {
	k := kindByName(st.Kind)
	if k == nil {
		x.c.Note("raw step names unknown kind %q", st.Kind)
		return
	}
	b, err := hex.DecodeString(st.Hex)
	if err != nil {
		x.c.Note("raw step has bad hex")
		return
	}
	x.c.Fault("raw-input")
	x.c.SetSample(map[string]interface{}{"op": "raw", "kind": st.Kind, "bytes": len(b)})
	r, in, _ := x.guard(k, b)
	if r.err == nil && !r.panicked {
		x.idempotence(k, in, r.val)
	}
}
