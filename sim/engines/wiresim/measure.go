package wiresim

import (
	"fmt"
	"io"
	"path/filepath"
	"runtime"
	"sort"
	"strings"
)

const repoPrefix = "github.com/elastos/Elastos.ELA/"

// allocBound is the check's own statement of "a small multiple of the input
// length" (DESIGN Appendix A.5): 64 bytes per input byte plus 64 KiB.
func allocBound(inputLen int) uint64 { return 64*uint64(inputLen) + 64<<10 }

type decodeResult struct {
	val       interface{}
	err       error
	panicked  bool
	panicText string
	panicSite string
	alloc     uint64
}

var msBefore, msAfter runtime.MemStats

func shortFunc(fn string) string {
	fn = strings.TrimPrefix(fn, repoPrefix)
	// core/types/payload.(*Voting).Deserialize -> payload.(*Voting).Deserialize
	if i := strings.LastIndex(fn, "/"); i >= 0 {
		fn = fn[i+1:]
	}
	return fn
}

// panicSite names the innermost frame of the code under test on the
// panicking stack.
func panicSiteFromStack() string {
	pcs := make([]uintptr, 64)
	n := runtime.Callers(2, pcs)
	frames := runtime.CallersFrames(pcs[:n])
	for {
		f, more := frames.Next()
		if strings.HasPrefix(f.Function, repoPrefix) {
			return fmt.Sprintf("%s@%s:%d", shortFunc(f.Function), filepath.Base(f.File), f.Line)
		}
		if !more {
			break
		}
	}
	return "outside-repo"
}

var digitsStripper = strings.NewReplacer("0", "", "1", "", "2", "", "3", "", "4", "", "5", "", "6", "", "7", "", "8", "", "9", "")

// panicClass is the panic message without the input-dependent numbers.
func panicClass(s string) string {
	s = digitsStripper.Replace(s)
	if len(s) > 80 {
		s = s[:80]
	}
	return strings.Join(strings.Fields(s), "-")
}

// runDecode performs exactly one decode call on this goroutine, contains a
// panic of the code under test, and (when measure is set) reports the bytes
// the call allocated (runtime.MemStats.TotalAlloc delta).
func runDecode(dec func(b []byte) (interface{}, error), b []byte, measure bool) (res decodeResult) {
	defer func() {
		if r := recover(); r != nil {
			res.panicked = true
			res.panicText = fmt.Sprint(r)
			res.panicSite = panicSiteFromStack()
			if measure {
				runtime.ReadMemStats(&msAfter)
				res.alloc = msAfter.TotalAlloc - msBefore.TotalAlloc
			}
		}
	}()
	if measure {
		runtime.ReadMemStats(&msBefore)
	}
	res.val, res.err = dec(b)
	if measure {
		runtime.ReadMemStats(&msAfter)
		res.alloc = msAfter.TotalAlloc - msBefore.TotalAlloc
	}
	return res
}

func runDecodeIO(dec func(r io.Reader) (interface{}, error), r io.Reader) {
	defer func() { recover() }()
	dec(r)
}

// clampTrace runs the pre-flight (see clampReader) and returns the input the
// decoder was actually shown and whether it differs from b.
//
// complete is false when the pre-flight could not be finished (too many
// 64-bit varints discovered one restart at a time); the input must then not
// be decoded at face value.
func clampTrace(dec func(r io.Reader) (interface{}, error), b []byte, limit, limit16 uint64) (x1 []byte, subst bool, complete bool) {
	varint64 := map[int]bool{}
	for try := 0; ; try++ {
		cr := newClampReader(b, limit, limit16, varint64)
		runDecodeIO(dec, cr)
		if cr.found >= 0 {
			if try >= 300 {
				return cr.materialised(), true, false
			}
			varint64[cr.found] = true
			continue
		}
		return cr.materialised(), cr.subst, true
	}
}

// allocSite finds where the decode call allocates most, by sampling every
// allocation of one more run of the same call with the runtime's memory
// profiler. The answer names the innermost frame of the code under test and,
// when that is the generic length-prefixed reader whose limit is its caller's
// choice, the caller too.
func allocSite(dec func(b []byte) (interface{}, error), b []byte) string {
	old := runtime.MemProfileRate
	defer func() { runtime.MemProfileRate = old }()
	snapshot := func() map[[32]uintptr]int64 {
		runtime.GC()
		runtime.GC()
		n, _ := runtime.MemProfile(nil, true)
		recs := make([]runtime.MemProfileRecord, n+256)
		n, ok := runtime.MemProfile(recs, true)
		if !ok {
			return nil
		}
		m := make(map[[32]uintptr]int64, n)
		for _, r := range recs[:n] {
			m[r.Stack0] += r.AllocBytes
		}
		return m
	}
	runtime.MemProfileRate = 512 // every allocation that matters for a >64KiB excess is far above this
	before := snapshot()
	runDecode(dec, b, false)
	after := snapshot()
	runtime.MemProfileRate = old
	if before == nil || after == nil {
		return "unresolved"
	}
	type cand struct {
		site  string
		bytes int64
	}
	bySite := map[string]int64{}
	for st, bytes := range after {
		d := bytes - before[st]
		if d <= 0 {
			continue
		}
		site := siteOfStack(st[:])
		if site == "" {
			continue
		}
		bySite[site] += d
	}
	var cands []cand
	for s, n := range bySite {
		cands = append(cands, cand{s, n})
	}
	if len(cands) == 0 {
		return "unresolved"
	}
	sort.Slice(cands, func(i, j int) bool {
		if cands[i].bytes != cands[j].bytes {
			return cands[i].bytes > cands[j].bytes
		}
		return cands[i].site < cands[j].site
	})
	return cands[0].site
}

func siteOfStack(stk []uintptr) string {
	n := 0
	for n < len(stk) && stk[n] != 0 {
		n++
	}
	if n == 0 {
		return ""
	}
	frames := runtime.CallersFrames(stk[:n])
	var repoFrames []string
	for {
		f, more := frames.Next()
		if strings.HasPrefix(f.Function, repoPrefix) {
			repoFrames = append(repoFrames, shortFunc(f.Function))
		}
		if !more || len(repoFrames) >= 3 {
			break
		}
	}
	if len(repoFrames) == 0 {
		return ""
	}
	site := repoFrames[0]
	// helpers whose size limit is a parameter chosen by the caller
	if (site == "common.ReadVarBytes" || site == "common.ReadBytes") && len(repoFrames) > 1 {
		site += "<-" + repoFrames[1]
	}
	return site
}
