package wiresim

import (
	"bytes"
	"encoding/hex"
	"encoding/json"
	"fmt"
	"io"
	"os"
	osexec "os/exec"
	"strings"
	"syscall"

	dmsg "github.com/elastos/Elastos.ELA/dpos/p2p/msg"
)

// Crash confirmation.
//
// When the clamped form of an input already shows a count-proportional
// allocation, decoding the input at face value inside the worker is not safe:
// a slice the machine cannot map kills the process ("fatal error: out of
// memory") instead of panicking, and an error-ignoring loop over a 2^63 count
// never ends. What the node would do with the face-value bytes is therefore
// observed in a throw-away child process (this same test binary, memory and
// CPU limited), a bounded number of times per run.

type childReq struct {
	Kind   string `json:"kind"`
	Hex    string `json:"hex"`
	DposPV int    `json:"dpos_pv"`
}

type childRes struct {
	Outcome string `json:"outcome"` // ok | error | panic | eof-loop
	Site    string `json:"site,omitempty"`
	Text    string `json:"text,omitempty"`
}

const (
	childEnv      = "WIRESIM_CHILD"
	childDataMax  = 1 << 30 // bytes of writable private memory the child may map
	childCPUSecs  = 20
	eofReadsLimit = 200000
)

// eofGuardReader is bytes.Reader that gives up when the decoder keeps asking
// for data long after the input ended (an error-ignoring loop).
type eofGuardReader struct {
	r        *bytes.Reader
	eofReads int
}

type eofLoop struct{}

const eofLoopText = "wiresim: decoder keeps reading past the end of the input"

func (eofLoop) String() string { return eofLoopText }

// Len: the node decodes messages from a bytes.Buffer / bytes.Reader; a decoder
// that asks its reader how much is left must get the same answer here.
func (g *eofGuardReader) Len() int { return g.r.Len() }

func (g *eofGuardReader) Read(p []byte) (int, error) {
	n, err := g.r.Read(p)
	if err == io.EOF {
		g.eofReads++
		if g.eofReads > eofReadsLimit {
			panic(eofLoop{})
		}
	}
	return n, err
}

// childMain is the body of the child process.
func childMain() {
	var req childReq
	if err := json.NewDecoder(os.Stdin).Decode(&req); err != nil {
		fmt.Println(`{"outcome":"bad-request"}`)
		return
	}
	k := kindByName(req.Kind)
	b, err := hex.DecodeString(req.Hex)
	if k == nil || err != nil {
		fmt.Println(`{"outcome":"bad-request"}`)
		return
	}
	rl := syscall.Rlimit{Cur: childDataMax, Max: childDataMax}
	syscall.Setrlimit(syscall.RLIMIT_DATA, &rl)
	cl := syscall.Rlimit{Cur: childCPUSecs, Max: childCPUSecs}
	syscall.Setrlimit(syscall.RLIMIT_CPU, &cl)
	if req.DposPV >= 0 {
		dmsg.SetPayloadVersion(uint32(req.DposPV))
	}
	res := childRes{}
	func() {
		defer func() {
			if r := recover(); r != nil {
				if _, ok := r.(eofLoop); ok {
					res.Outcome = "eof-loop"
					return
				}
				res.Outcome, res.Text, res.Site = "panic", fmt.Sprint(r), panicSiteFromStack()
			}
		}()
		_, err := k.dec(&eofGuardReader{r: bytes.NewReader(b)})
		if err != nil {
			res.Outcome, res.Text = "error", err.Error()
		} else {
			res.Outcome = "ok"
		}
	}()
	out, _ := json.Marshal(res)
	fmt.Println(string(out))
}

// runChild decodes b at face value in a child process and reports what
// happened to that process.
func runChild(k *kind, b []byte) childRes {
	req, _ := json.Marshal(childReq{Kind: k.name, Hex: hex.EncodeToString(b), DposPV: k.dposPV})
	cmd := osexec.Command(os.Args[0], "-test.run=^TestWireChild$", "-test.timeout=0")
	cmd.Env = append(os.Environ(), childEnv+"=1", "GOMAXPROCS=1", "SIM_REQ=")
	cmd.Stdin = bytes.NewReader(req)
	var out, errb bytes.Buffer
	cmd.Stdout, cmd.Stderr = &out, &errb
	err := cmd.Run()
	for _, line := range strings.Split(out.String(), "\n") {
		if strings.HasPrefix(line, "{") {
			var res childRes
			if json.Unmarshal([]byte(line), &res) == nil && res.Outcome != "" {
				return res
			}
		}
	}
	// no verdict line: the process died
	se := errb.String()
	switch {
	case strings.Contains(se, "out of memory") || strings.Contains(se, "cannot allocate"):
		return childRes{Outcome: "fatal-out-of-memory", Text: firstLine(se)}
	case strings.Contains(se, "fatal error:"):
		return childRes{Outcome: "fatal", Text: firstLine(se)}
	}
	return childRes{Outcome: "killed", Text: fmt.Sprint(err)}
}

func firstLine(s string) string {
	if i := strings.IndexByte(s, '\n'); i >= 0 {
		s = s[:i]
	}
	if len(s) > 200 {
		s = s[:200]
	}
	return s
}

// confirmCrash reports what the face-value input does to a node process.
func (x *exec) confirmCrash(dk *kind, face []byte, overallocSite string) {
	c := x.c
	res := runChild(dk, face)
	c.Probe("face-value-decode-confirmed-in-child-process")
	c.Logf("child decode kind=%s outcome=%s site=%s", family(dk.name), res.Outcome, res.Site)
	st := Step{Op: "crash", Kind: dk.name, Hex: hex.EncodeToString(face), Site: overallocSite}
	c.Check()
	switch res.Outcome {
	case "panic":
		x.violateRaw("C02", "decode-never-panics", "C02/panic/"+res.Site+"/"+panicClass(res.Text), st,
			"decoder %s panicked at %s: %s (face-value input decoded in a child process; its clamped form over-allocates in %s); input (%d bytes) %s",
			family(dk.name), res.Site, res.Text, overallocSite, len(face), hexShort(face, 160))
	case "fatal-out-of-memory", "fatal":
		x.violateRaw("C02", "decode-never-crashes-the-node", "C02/process-killed-out-of-memory/"+overallocSite, st,
			"decoding a %d-byte input with %s killed the (child) process: %s; the clamped form over-allocates in %s; input %s",
			len(face), family(dk.name), res.Text, overallocSite, hexShort(face, 160))
	case "eof-loop":
		x.violateRaw("C02", "decode-never-crashes-the-node", "C02/loops-on-wire-count-past-end-of-input/"+overallocSite, st,
			"decoder %s kept reading more than %d times after the end of a %d-byte input (loop bounded only by a count from the wire, allocating in %s); input %s",
			family(dk.name), eofReadsLimit, len(face), overallocSite, hexShort(face, 160))
	case "killed":
		x.violateRaw("C02", "decode-never-crashes-the-node", "C02/process-killed/"+overallocSite, st,
			"decoding a %d-byte input with %s ended the (child) process without a verdict (%s); input %s", len(face), family(dk.name), res.Text, hexShort(face, 160))
	}
}
