package wiresim

import (
	"errors"
	"io"
	"net"
	"os"
	"time"
)

// chunk is one delivery of the simulated link: bytes that become readable
// together, after a delay counted from the moment the previous chunk was
// fully consumed.
type chunk struct {
	data  []byte
	delay time.Duration
}

type endKind int

const (
	endEOF   endKind = iota // peer closed the connection
	endStall                // peer stays connected and sends nothing more
	endReset                // connection reset
)

var errConnReset = errors.New("simconn: connection reset by peer")

// errHung is what a Read returns when the reader blocks with no deadline on a
// link that will never deliver again: on a real socket this read never
// returns. The simulated clock is advanced by a day first.
var errHung = errors.New("simconn: read blocked forever (no deadline set)")

type simAddr string

func (a simAddr) Network() string { return "sim" }
func (a simAddr) String() string  { return string(a) }

// simConn is the simulated network connection: an in-process net.Conn whose
// delivery schedule is fixed by the plan. Deadlines are honoured against the
// bubble's fake clock; waiting is time.Sleep on that clock, so a read that
// must time out does so at exactly the deadline and costs no wall time.
type simConn struct {
	script []chunk
	end    endKind
	cur    int
	off    int

	rdDeadline time.Time
	wrDeadline time.Time

	consumed  int // bytes handed to the reader
	reads     int
	slept     time.Duration
	hung      bool
	timedOut  int
	deadlines int // SetReadDeadline calls
	failSetRD bool

	written      []byte
	writeStall   bool // the peer's window is closed: writes block
	writeDelay   time.Duration // the peer's window opens only after this long (first write)
	writeTimeout int
	closed       bool
}

func (c *simConn) wait(d time.Duration) {
	if d > 0 {
		time.Sleep(d)
		c.slept += d
	}
}

func (c *simConn) Read(p []byte) (int, error) {
	c.reads++
	if c.closed {
		return 0, net.ErrClosed
	}
	if len(p) == 0 {
		return 0, nil
	}
	for {
		now := time.Now()
		if !c.rdDeadline.IsZero() && !now.Before(c.rdDeadline) {
			c.timedOut++
			return 0, os.ErrDeadlineExceeded
		}
		if c.cur >= len(c.script) {
			switch c.end {
			case endEOF:
				return 0, io.EOF
			case endReset:
				return 0, errConnReset
			}
			if c.rdDeadline.IsZero() {
				c.hung = true
				c.wait(24 * time.Hour)
				return 0, errHung
			}
			c.wait(c.rdDeadline.Sub(now))
			continue
		}
		ch := &c.script[c.cur]
		if ch.delay > 0 {
			if !c.rdDeadline.IsZero() && now.Add(ch.delay).After(c.rdDeadline) {
				w := c.rdDeadline.Sub(now)
				ch.delay -= w
				c.wait(w)
				continue
			}
			c.wait(ch.delay)
			ch.delay = 0
			continue
		}
		n := copy(p, ch.data[c.off:])
		c.off += n
		c.consumed += n
		if c.off >= len(ch.data) {
			c.cur++
			c.off = 0
		}
		if n == 0 { // empty chunk
			continue
		}
		return n, nil
	}
}

func (c *simConn) Write(p []byte) (int, error) {
	if c.closed {
		return 0, net.ErrClosed
	}
	if c.writeStall {
		now := time.Now()
		if c.wrDeadline.IsZero() {
			c.hung = true
			c.wait(24 * time.Hour)
			return 0, errHung
		}
		if now.Before(c.wrDeadline) {
			c.wait(c.wrDeadline.Sub(now))
		}
		c.writeTimeout++
		return 0, os.ErrDeadlineExceeded
	}
	if c.writeDelay > 0 {
		d := c.writeDelay
		c.writeDelay = 0
		if !c.wrDeadline.IsZero() && time.Now().Add(d).After(c.wrDeadline) {
			c.wait(time.Until(c.wrDeadline))
			c.writeTimeout++
			return 0, os.ErrDeadlineExceeded
		}
		c.wait(d)
	}
	c.written = append(c.written, p...)
	return len(p), nil
}

func (c *simConn) Close() error                { c.closed = true; return nil }
func (c *simConn) LocalAddr() net.Addr         { return simAddr("node") }
func (c *simConn) RemoteAddr() net.Addr        { return simAddr("peer") }
func (c *simConn) SetDeadline(t time.Time) error { c.rdDeadline, c.wrDeadline = t, t; return nil }
func (c *simConn) SetReadDeadline(t time.Time) error {
	c.deadlines++
	if c.failSetRD {
		return errors.New("simconn: set read deadline failed")
	}
	c.rdDeadline = t
	return nil
}
func (c *simConn) SetWriteDeadline(t time.Time) error { c.wrDeadline = t; return nil }

// remaining returns the bytes scheduled but not yet consumed.
func (c *simConn) remaining() int {
	n := 0
	for i := c.cur; i < len(c.script); i++ {
		n += len(c.script[i].data)
	}
	return n - c.off
}

// link describes how the simulated link delivers a byte stream.
type link struct {
	Frag    []int   `json:"frag,omitempty"`  // fragment sizes, cycled; empty = whole stream at once
	DelayMs []int64 `json:"delay,omitempty"` // delay before fragment i (cycled), milliseconds
	End     int     `json:"end,omitempty"`   // endKind after the last byte
}

// deliver turns a byte stream into the delivery script.
func (l link) deliver(stream []byte) []chunk {
	var out []chunk
	if len(l.Frag) == 0 {
		d := time.Duration(0)
		if len(l.DelayMs) > 0 {
			d = time.Duration(l.DelayMs[0]) * time.Millisecond
		}
		if len(stream) > 0 {
			out = append(out, chunk{data: stream, delay: d})
		}
		return out
	}
	for i, off := 0, 0; off < len(stream); i++ {
		n := l.Frag[i%len(l.Frag)]
		if n < 1 {
			n = 1
		}
		if off+n > len(stream) {
			n = len(stream) - off
		}
		var d time.Duration
		if len(l.DelayMs) > 0 {
			d = time.Duration(l.DelayMs[i%len(l.DelayMs)]) * time.Millisecond
		}
		out = append(out, chunk{data: stream[off : off+n], delay: d})
		off += n
	}
	return out
}

func totalDelay(cs []chunk) time.Duration {
	var d time.Duration
	for _, c := range cs {
		d += c.delay
	}
	return d
}
