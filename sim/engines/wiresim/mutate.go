package wiresim

import (
	"encoding/binary"
	"io"
)

// field is one Write call of the node's encoder: the encoders write every
// scalar, varint discriminant, varint body and byte string with its own
// Write, so the trace is the field layout of the message.
type field struct {
	off, n int
}

// traceWriter records the field layout while the real encoder runs.
type traceWriter struct {
	buf    []byte
	fields []field
}

func (t *traceWriter) Write(p []byte) (int, error) {
	t.fields = append(t.fields, field{len(t.buf), len(p)})
	t.buf = append(t.buf, p...)
	return len(p), nil
}

// boundaryValues are the targeted rewrites of length/count fields.
// (1000 ... 50001: counts at and just past the protocol's own per-message
// limits - a decoder that refuses counts above its limit may still size an
// allocation by a count just inside it)
var boundaryValues = []uint64{0, 1, 0xfc, 0xfd, 0xffff, 0x10000, 0xffffffff, 1 << 63, ^uint64(0), 1000, 10000, 10001, 50000, 50001}

func varintBytes(v uint64) []byte {
	switch {
	case v < 0xfd:
		return []byte{byte(v)}
	case v <= 0xffff:
		b := []byte{0xfd, 0, 0}
		binary.LittleEndian.PutUint16(b[1:], uint16(v))
		return b
	case v <= 0xffffffff:
		b := []byte{0xfe, 0, 0, 0, 0}
		binary.LittleEndian.PutUint32(b[1:], uint32(v))
		return b
	default:
		b := make([]byte, 9)
		b[0] = 0xff
		binary.LittleEndian.PutUint64(b[1:], v)
		return b
	}
}

func splice(b []byte, off, n int, repl []byte) []byte {
	out := make([]byte, 0, len(b)-n+len(repl))
	out = append(out, b[:off]...)
	out = append(out, repl...)
	out = append(out, b[off+n:]...)
	return out
}

// rewriteTarget is one rewritable length/count candidate of a traced message.
type rewriteTarget struct {
	off, n int  // bytes replaced
	varint bool // replaced by a varint encoding (else fixed width, little endian)
}

// rewriteTargets lists every candidate: varints (a 1-byte write, possibly
// followed by its 2/4/8-byte body) and fixed-width 2/4/8-byte integers.
// A plain byte that is not a varint is a candidate too: rewriting it is just
// one more mutation.
func rewriteTargets(fields []field, b []byte) []rewriteTarget {
	var out []rewriteTarget
	for i := 0; i < len(fields); i++ {
		f := fields[i]
		switch f.n {
		case 1:
			t := rewriteTarget{off: f.off, n: 1, varint: true}
			if i+1 < len(fields) && fields[i+1].off == f.off+1 {
				d, nn := b[f.off], fields[i+1].n
				if (d == 0xfd && nn == 2) || (d == 0xfe && nn == 4) || (d == 0xff && nn == 8) {
					t.n = 1 + nn
					i++
				}
			}
			out = append(out, t)
		case 2, 4, 8:
			out = append(out, rewriteTarget{off: f.off, n: f.n})
		}
	}
	return out
}

// apply returns the message with the target rewritten to v; ok is false when
// the value does not fit the fixed width or equals the current contents.
func (t rewriteTarget) apply(b []byte, v uint64) ([]byte, bool) {
	var repl []byte
	if t.varint {
		repl = varintBytes(v)
	} else {
		if t.n < 8 && v >= 1<<(8*uint(t.n)) {
			return nil, false
		}
		repl = make([]byte, t.n)
		for i := 0; i < t.n; i++ {
			repl[i] = byte(v >> (8 * uint(i)))
		}
	}
	if len(repl) == t.n && string(repl) == string(b[t.off:t.off+t.n]) {
		return nil, false
	}
	return splice(b, t.off, t.n, repl), true
}

// flip is a corruption drawn at Generate time: position as a fraction of the
// message (so it survives shrinking and different message sizes), an xor
// mask, and how many consecutive bytes it covers.
type flip struct {
	Pos  uint32 `json:"p"`           // position = Pos mod len
	Mask byte   `json:"m"`           // xor mask (never 0)
	Run  int    `json:"r,omitempty"` // further bytes overwritten with Fill
	Fill byte   `json:"f,omitempty"`
}

func (f flip) apply(b []byte) []byte {
	if len(b) == 0 {
		return b
	}
	out := append([]byte(nil), b...)
	p := int(f.Pos % uint32(len(b)))
	m := f.Mask
	if m == 0 {
		m = 1
	}
	out[p] ^= m
	for i := 1; i <= f.Run && p+i < len(out); i++ {
		out[p+i] = f.Fill
	}
	return out
}

// ---------------------------------------------------------------------------
// clampReader: the safety pre-flight.
//
// A decoder that sizes an allocation by an integer from the wire can ask the
// runtime for more memory than the machine has, which kills the process
// instead of panicking. Before an input is decoded at face value it is
// decoded through this reader, which hands the decoder the same bytes except
// that every 4/8-byte integer (and varint body) larger than limit is replaced
// by limit (and, at the first level, every 2-byte integer larger than limit16:
// nested 16-bit counts multiply). The bytes actually delivered form a real input in their own
// right (materialised()), so whatever the decoder does with them is a genuine
// observation; a count-proportional allocation shows up there at a harmless
// size, and the face-value decode is then skipped.
type clampReader struct {
	buf      []byte
	pos      int
	limit    uint64 // cap for 4- and 8-byte integers and 32/64-bit varint bodies
	limit16  uint64 // cap for 2-byte integers / 16-bit varint bodies; 0 = none
	subst    bool
	varint64 map[int]bool // original offsets of 0xff bytes known to start a 64-bit varint
	removed  int          // bytes removed by 0xff -> 0xfe splices before pos
	lastFF   int          // original offset of a 0xff delivered by the previous 1-byte read; -1 none
	found    int          // original offset newly recognised as a 64-bit varint; -1 none
}

// clampRestart aborts a pre-flight attempt: a 64-bit varint was recognised
// only after its discriminant had been handed out.
type clampRestart struct{}

func newClampReader(b []byte, limit, limit16 uint64, varint64 map[int]bool) *clampReader {
	return &clampReader{buf: append([]byte(nil), b...), limit: limit, limit16: limit16, varint64: varint64, lastFF: -1, found: -1}
}

// Len: what a bytes.Reader over the same input would answer (see eofGuardReader.Len).
func (c *clampReader) Len() int { return len(c.buf) - c.pos }

func (c *clampReader) Read(p []byte) (int, error) {
	if len(p) == 0 {
		return 0, nil
	}
	if c.pos >= len(c.buf) {
		return 0, io.EOF
	}
	avail := len(c.buf) - c.pos
	orig := c.pos + c.removed
	lastFF := c.lastFF
	c.lastFF = -1
	switch {
	case len(p) == 1 && c.buf[c.pos] == 0xff && avail >= 9:
		if c.varint64[orig] {
			// a 64-bit varint (>= 2^32): deliver the 32-bit form with the clamped value
			repl := make([]byte, 5)
			repl[0] = 0xfe
			binary.LittleEndian.PutUint32(repl[1:], uint32(c.limit))
			c.buf = splice(c.buf, c.pos, 9, repl)
			c.removed += 4
			c.subst = true
		} else {
			c.lastFF = orig
		}
	case len(p) == 2 && avail >= 2 && c.limit16 > 0:
		if uint64(binary.LittleEndian.Uint16(c.buf[c.pos:])) > c.limit16 {
			binary.LittleEndian.PutUint16(c.buf[c.pos:], uint16(c.limit16))
			c.subst = true
		}
	case len(p) == 4 && avail >= 4:
		if uint64(binary.LittleEndian.Uint32(c.buf[c.pos:])) > c.limit {
			binary.LittleEndian.PutUint32(c.buf[c.pos:], uint32(c.limit))
			c.subst = true
		}
	case len(p) == 8 && avail >= 8:
		if lastFF >= 0 && lastFF == orig-1 {
			// discriminant 0xff followed by its 8-byte body: a 64-bit varint.
			// Its value must not reach the decoder; start over and splice it.
			c.found = lastFF
			panic(clampRestart{})
		}
		if binary.LittleEndian.Uint64(c.buf[c.pos:]) > c.limit {
			binary.LittleEndian.PutUint64(c.buf[c.pos:], c.limit)
			c.subst = true
		}
	}
	n := copy(p, c.buf[c.pos:])
	c.pos += n
	return n, nil
}

func (c *clampReader) materialised() []byte { return c.buf }
