// Package wiresim is the deterministic simulation of the node's wire layer.
//
// System under simulation (real code): p2p.ReadMessage / p2p.WriteMessage,
// the message factories of the main network (p2p/peer + elanet) and of the
// DPoS network (dpos/p2p/peer + dpos), every p2p/msg and dpos/p2p/msg type,
// transaction / payload / output-payload / block / header / auxpow decoding.
//
// Simulated environment: the network connection. Senders are the node's own
// encoders fed by a seeded field generator; a simulated net.Conn, driven by
// the plan, fragments, delays, stalls, truncates, corrupts (stale or
// recomputed checksum), rewrites length fields, duplicates and reorders what
// they sent, on the bubble's fake clock.
package wiresim

import (
	"encoding/json"
	"fmt"
	"os"
	"path/filepath"

	"github.com/elastos/Elastos.ELA/common/log"
	"github.com/elastos/Elastos.ELA/core/transaction"
	"github.com/elastos/Elastos.ELA/core/types/functions"

	"verif/sim/core"
)

type Engine struct{}

func (Engine) Name() string { return "wiresim" }

func (Engine) Components() ([]string, []string) {
	return []string{
			"p2p.ReadMessage / p2p.WriteMessage / p2p.Header (p2p/message.go, p2p/header.go) incl. the block send cache",
			"p2p/peer.CheckAndCreateMessage, CheckAndCreateTxMessage, Peer.createMessage; elanet createMessage; dpos/p2p/peer Peer.createMessage; dpos createMessage (through verif-tagged VerifWireCreateMessage wrappers)",
			"every p2p/msg and dpos/p2p/msg message type (Serialize/Deserialize/MaxLength)",
			"core/transaction GetTransactionByBytes + Deserialize/Serialize/Hash for every tx type and payload version; core/types/payload, core/types/outputpayload, core/contract/program",
			"core/types Block, DposBlock, DPOSHeader, Block.DeserializeTxLoc; core/types/common Header, Output, Input, Attribute; auxpow; payload.Confirm",
			"common/serialize.go",
		}, []string{
			"network connection = in-process net.Conn with a plan-driven delivery script (fragmentation, delay, stall, truncation, corruption) on the testing/synctest fake clock",
			"peers = the node's own encoders fed by a seeded field generator (keys derived from the seed; signatures are random bytes, nothing in the wire layer verifies them)",
			"the getDposBlock callback of Peer.writeMessage is mirrored (6 lines)",
			"node logger (common/log) created at level 'off' as the node's start-up would, writing nowhere",
		}
}

func init() {
	// What the node does at start-up (common/config/settings): route the
	// types package's transaction constructors to core/transaction.
	functions.GetTransactionByTxType = transaction.GetTransaction
	functions.GetTransactionByBytes = transaction.GetTransactionByBytes
	functions.CreateTransaction = transaction.CreateTransaction
	functions.GetTransactionParameters = transaction.GetTransactionparameters
	// p2p.Header.Verify logs through the global logger, which the node creates
	// in main(). Level 255 prints nothing.
	dir := os.Getenv("SIM_TMP")
	if dir == "" {
		dir = os.TempDir()
	}
	log.NewDefault(filepath.Join(dir, "wiresim-elalog"), 255, 0, 0)
}

// Step is one simulator step. Every step is self-contained (kind names and
// seeds, never positions of other steps), so the shrinker can drop any subset.
type Step struct {
	Op string `json:"op"`
	// sweep   : every kind once: build, encode, decode, compare, hash/program invariance, and one
	//           connection per network carrying all of them with fragmentation and delay only
	// probe   : every kind once with a few faults each (truncation, boundary rewrite, flip)
	// deep    : one kind: truncation at every offset, every length/count field rewritten to every
	//           boundary value, planned flips, cross-decoder feeding, Byzantine framed delivery
	// session : one simulated connection carrying frames with per-frame faults
	// hdrenum : every single-byte corruption of the 24-byte header of one frame
	// truncenum: one frame cut at every offset, peer then dead or silent
	// declen  : declared header length rewritten to every boundary value
	// raw     : decode exactly these bytes with this kind's decoder (replay of a finding)
	// crash   : decode exactly these bytes at face value in a child process (replay of a finding)
	// rawframe: deliver exactly these bytes on one connection (replay of a finding)
	Kind     string  `json:"kind,omitempty"`
	Seed     uint64  `json:"seed,omitempty"`
	Net      string  `json:"net,omitempty"`
	Flips    []flip  `json:"flips,omitempty"`
	Cross    int     `json:"cross,omitempty"`
	Stride   int     `json:"stride,omitempty"`
	Hex      string  `json:"hex,omitempty"`
	Frames   []Frame `json:"frames,omitempty"`
	Link     link    `json:"link,omitempty"`
	TimeoutS int64   `json:"timeout_s,omitempty"`
	EndKind  int     `json:"end,omitempty"`
	Site     string  `json:"site,omitempty"`  // crash: allocation site the clamped form showed
	Part     int     `json:"part,omitempty"`  // sweep/probe: which residue class of kinds (mod Parts)
	Parts    int     `json:"parts,omitempty"` // 0/1 = all kinds
	// sendcache: block messages served to 1..4 peers through the send cache (C15)
	NBlk  int    `json:"nblk,omitempty"`
	Peers int    `json:"peers,omitempty"`
	Sends []Send `json:"sends,omitempty"`
}

// Frame is one message a simulated peer sends during a session, with the
// fault the link or the (Byzantine) peer applies to it.
type Frame struct {
	Kind  string `json:"kind"`
	Seed  uint64 `json:"seed"`
	Fault string `json:"fault,omitempty"`
	A     uint32 `json:"a,omitempty"`
	M     byte   `json:"m,omitempty"`
	V     uint64 `json:"v,omitempty"`
}

func (e Engine) Execute(c *core.Ctx) {
	core.Bubble(c.T, func() { execute(c) })
}

func execute(c *core.Ctx) {
	c.MaxViols = 256
	x := newExec(c)
	defer x.restore()
	for i, raw := range c.Plan.Steps {
		var st Step
		if err := json.Unmarshal(raw, &st); err != nil {
			panic(fmt.Sprintf("bad step %d: %v", i, err))
		}
		c.CurStep = i
		x.step(&st)
	}
	x.finish()
}

// SimplifyStep proposes smaller variants of a step for the shrinker.
func (Engine) SimplifyStep(raw json.RawMessage) []json.RawMessage {
	var st Step
	if json.Unmarshal(raw, &st) != nil {
		return nil
	}
	var out []json.RawMessage
	add := func(s Step) {
		b, _ := json.Marshal(s)
		out = append(out, b)
	}
	if len(st.Flips) > 1 {
		for i := range st.Flips {
			s := st
			s.Flips = append(append([]flip(nil), st.Flips[:i]...), st.Flips[i+1:]...)
			add(s)
		}
	}
	if len(st.Frames) > 1 {
		for i := range st.Frames {
			s := st
			s.Frames = append(append([]Frame(nil), st.Frames[:i]...), st.Frames[i+1:]...)
			add(s)
		}
	}
	if n := len(st.Sends); n > 3 {
		for _, part := range [][]Send{st.Sends[:n/2], st.Sends[n/2:], st.Sends[:n-n/4], st.Sends[n/4:]} {
			s := st
			s.Sends = append([]Send(nil), part...)
			add(s)
		}
	}
	if len(st.Sends) > 1 {
		for i := range st.Sends {
			s := st
			s.Sends = append(append([]Send(nil), st.Sends[:i]...), st.Sends[i+1:]...)
			add(s)
		}
	}
	for i := range st.Sends {
		if st.Sends[i].SlowMs != 0 || st.Sends[i].Other || st.Sends[i].Peer != 0 {
			s := st
			s.Sends = append([]Send(nil), st.Sends...)
			s.Sends[i].SlowMs, s.Sends[i].Other, s.Sends[i].Peer = 0, false, 0
			add(s)
		}
	}
	if len(st.Link.Frag) > 0 || len(st.Link.DelayMs) > 0 {
		s := st
		s.Link = link{End: st.Link.End}
		add(s)
	}
	return out
}
