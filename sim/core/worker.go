package core

import (
	"bufio"
	"encoding/json"
	"fmt"
	"os"
	"runtime/debug"
	"strconv"
	"strings"
	"testing"
	"time"
)

// Request is what the driver hands a worker process (path in $SIM_REQ).
type Request struct {
	Mode     string   `json:"mode"` // batch | exec | shrink | plan
	Property string   `json:"property"`
	Tier     string   `json:"tier"`
	Seeds    []uint64 `json:"seeds,omitempty"`
	Idx      []uint64 `json:"idx,omitempty"`
	Plan     *Plan    `json:"plan,omitempty"`
	Target   string   `json:"target,omitempty"` // signature to preserve while shrinking
	Out      string   `json:"out"`
	KeepLog  bool     `json:"keep_log,omitempty"`
	MaxExec  int      `json:"max_exec,omitempty"`
	Known    []string `json:"known,omitempty"` // "<prop>|<signature>" of listed known findings
}

// RunRecord is one line of worker output.
type RunRecord struct {
	Seed    uint64   `json:"seed"`
	Idx     uint64   `json:"idx"`
	NSteps  int      `json:"nsteps"`
	Outcome *Outcome `json:"outcome"`
	Plan    *Plan    `json:"plan,omitempty"` // present when a violation occurred (or in exec/shrink mode)
	WallMs  float64  `json:"wall_ms"`
	Real    []string `json:"real,omitempty"`
	Stub    []string `json:"stub,omitempty"`
	Execs   int      `json:"execs,omitempty"`
}

// Simplifier is optionally implemented by engines that can propose simpler
// variants of a single step (smaller arguments) during shrinking.
type Simplifier interface {
	SimplifyStep(step json.RawMessage) []json.RawMessage
}

// Main is called from each engine's TestSim.
func Main(t *testing.T, e Engine) {
	reqPath := os.Getenv("SIM_REQ")
	if reqPath == "" {
		t.Skip("SIM_REQ not set; this test binary is driven by /verif/check")
	}
	debug.SetGCPercent(400)
	b, err := os.ReadFile(reqPath)
	if err != nil {
		fmt.Fprintf(os.Stderr, "HARNESS: cannot read request: %v\n", err)
		os.Exit(2)
	}
	var req Request
	if err := json.Unmarshal(b, &req); err != nil {
		fmt.Fprintf(os.Stderr, "HARNESS: bad request: %v\n", err)
		os.Exit(2)
	}
	f, err := os.Create(req.Out)
	if err != nil {
		fmt.Fprintf(os.Stderr, "HARNESS: cannot create out: %v\n", err)
		os.Exit(2)
	}
	w := bufio.NewWriter(f)
	emit := func(r *RunRecord) {
		jb, err := json.Marshal(r)
		if err != nil {
			fmt.Fprintf(os.Stderr, "HARNESS: marshal: %v\n", err)
			os.Exit(2)
		}
		w.Write(jb)
		w.WriteByte('\n')
		w.Flush()
	}
	real, stub := e.Components()
	for _, k := range req.Known {
		KnownSigs[k] = true
	}
	switch req.Mode {
	case "batch":
		for i, seed := range req.Seeds {
			t0 := time.Now()
			genProp := req.Property
			if g := os.Getenv("SIM_GENPROP"); g != "" {
				// developer aid: judge property X on the workload profile of property Y
				genProp = g
			}
			plan := e.Generate(NewRng(seed), genProp, req.Tier)
			plan.Engine, plan.Property, plan.Tier, plan.Seed = e.Name(), req.Property, req.Tier, seed
			out := Run(t, e, plan, false)
			out.Steps = len(plan.Steps)
			rec := &RunRecord{Seed: seed, NSteps: len(plan.Steps), Outcome: out, WallMs: float64(time.Since(t0).Microseconds()) / 1000}
			if i < len(req.Idx) {
				rec.Idx = req.Idx[i]
			}
			if len(out.Violations) > 0 || out.HarnessErr != "" {
				rec.Plan = plan
				for vi := range out.Violations {
					if out.Violations[vi].Plan != nil {
						vp := out.Violations[vi].Plan
						vp.Engine, vp.Property, vp.Tier, vp.Seed = e.Name(), req.Property, req.Tier, seed
					}
				}
			}
			if i == 0 {
				rec.Real, rec.Stub = real, stub
			} else {
				out.Sample = nil
			}
			emit(rec)
		}
	case "plan":
		// the plans these seeds stand for, not executed (the driver attributes a
		// worker death to the run that was in progress)
		for _, seed := range req.Seeds {
			genProp := req.Property
			if g := os.Getenv("SIM_GENPROP"); g != "" {
				genProp = g
			}
			plan := e.Generate(NewRng(seed), genProp, req.Tier)
			plan.Engine, plan.Property, plan.Tier, plan.Seed = e.Name(), req.Property, req.Tier, seed
			emit(&RunRecord{Seed: seed, NSteps: len(plan.Steps), Outcome: &Outcome{}, Plan: plan})
		}
	case "exec":
		t0 := time.Now()
		out := Run(t, e, req.Plan, req.KeepLog)
		out.Steps = len(req.Plan.Steps)
		emit(&RunRecord{Seed: req.Plan.Seed, NSteps: len(req.Plan.Steps), Outcome: out, Plan: req.Plan, WallMs: float64(time.Since(t0).Microseconds()) / 1000, Real: real, Stub: stub})
	case "shrink":
		max := req.MaxExec
		if max <= 0 {
			max = 300
		}
		small, execs := Shrink(t, e, req.Plan, req.Property, req.Target, max)
		out := Run(t, e, small, true)
		out.Steps = len(small.Steps)
		emit(&RunRecord{Seed: small.Seed, NSteps: len(small.Steps), Outcome: out, Plan: small, Execs: execs, Real: real, Stub: stub})
	default:
		fmt.Fprintf(os.Stderr, "HARNESS: unknown mode %q\n", req.Mode)
		os.Exit(2)
	}
	f.Close()
	if RaceEnabled {
		// the testing package fails a test during which the detector reported
		// anything; the reports are the engine's data (C40), not a test failure
		os.Exit(0)
	}
}

func hasSig(out *Outcome, prop, sig string) bool {
	if out.HarnessErr != "" {
		return false
	}
	for _, v := range out.Violations {
		if v.Property == prop && v.Signature == sig {
			return true
		}
	}
	return false
}

// Shrink is ddmin over plan steps followed by per-step simplification, keeping
// a candidate only while the same violation signature persists.
func Shrink(t *testing.T, e Engine, p *Plan, prop, sig string, maxExec int) (*Plan, int) {
	execs := 0
	// shrinking is bounded by executions and by wall time (slow plans)
	stopAt := time.Now().Add(shrinkWall())
	try := func(q *Plan) bool {
		if execs >= maxExec || time.Now().After(stopAt) {
			return false
		}
		execs++
		return hasSig(Run(t, e, q, false), prop, sig)
	}
	cur := p.Clone()
	// Truncate after the violating step first (cheap big win).
	if out := Run(t, e, cur, false); hasSig(out, prop, sig) {
		for _, v := range out.Violations {
			if v.Signature == sig && v.Step+1 < len(cur.Steps) && v.Step >= 0 {
				q := cur.Clone()
				q.Steps = q.Steps[:v.Step+1]
				if try(q) {
					cur = q
				}
			}
		}
	}
	n := 2
	for len(cur.Steps) >= 2 && execs < maxExec {
		chunk := (len(cur.Steps) + n - 1) / n
		reduced := false
		for start := 0; start < len(cur.Steps); start += chunk {
			end := start + chunk
			if end > len(cur.Steps) {
				end = len(cur.Steps)
			}
			q := cur.Clone()
			q.Steps = append(append([]json.RawMessage(nil), cur.Steps[:start]...), cur.Steps[end:]...)
			if len(q.Steps) == len(cur.Steps) {
				continue
			}
			if try(q) {
				cur = q
				if n > 2 {
					n--
				}
				reduced = true
				break
			}
		}
		if !reduced {
			if chunk <= 1 {
				break
			}
			n *= 2
			if n > len(cur.Steps) {
				n = len(cur.Steps)
			}
		}
	}
	if s, ok := e.(Simplifier); ok {
		for i := 0; i < len(cur.Steps) && execs < maxExec; i++ {
			// to a fixed point per step: a simplification that holds may open the next one
			for progress := true; progress && execs < maxExec; {
				progress = false
				for _, alt := range s.SimplifyStep(cur.Steps[i]) {
					if execs >= maxExec {
						break
					}
					q := cur.Clone()
					q.Steps[i] = alt
					if try(q) {
						cur = q
						progress = true
						break
					}
				}
			}
		}
	}
	return cur, execs
}

// trimStack keeps the frames below the panic, shortened.
func trimStack(b []byte) string {
	s := string(b)
	if i := strings.Index(s, "panic("); i >= 0 {
		s = s[i:]
	}
	if len(s) > 2500 {
		s = s[:2500]
	}
	return s
}

// shrinkWall is the wall-clock budget of one shrink (VERIF_SHRINK_S, default 120 s).
func shrinkWall() time.Duration {
	if v := os.Getenv("VERIF_SHRINK_S"); v != "" {
		if n, err := strconv.Atoi(v); err == nil && n > 0 {
			return time.Duration(n) * time.Second
		}
	}
	return 120 * time.Second
}

// repoPanicSite returns the function of the code under test in which a
// recovered panic arose (the innermost non-runtime frame after the panic
// frames), or "" when that frame belongs to the harness or the standard
// library (then the panic is the harness's own problem).
func repoPanicSite(stack string) string {
	const repo = "github.com/elastos/Elastos.ELA/"
	lines := strings.Split(stack, "\n")
	// Deferred functions that re-raise (and texts that carry an inner stack)
	// list several "panic(" frames. Each is judged by the first real frame
	// below it; the original panic is the LAST one that arose in the repository.
	site := ""
	for i, l := range lines {
		if strings.HasPrefix(l, "panic(") {
			if s := panicSiteFrom(lines[i:], repo); s != "" {
				site = s
			}
		}
	}
	return site
}

func panicSiteFrom(lines []string, repo string) string {
	seenPanic := false
	for n, l := range lines {
		if n > 0 && strings.HasPrefix(l, "panic(") {
			return "" // the next panic frame: judged on its own
		}
		if strings.HasPrefix(l, "panic(") || strings.HasPrefix(l, "runtime.panic") || strings.HasPrefix(l, "runtime.gopanic") {
			seenPanic = true
			continue
		}
		if !seenPanic || strings.HasPrefix(l, "\t") {
			continue
		}
		if strings.HasPrefix(l, "runtime.") || strings.HasPrefix(l, "runtime/") || strings.HasPrefix(l, "internal/") {
			continue
		}
		if i := strings.Index(l, repo); i == 0 {
			fn := l[len(repo):]
			if j := strings.LastIndex(fn, "("); j > 0 {
				fn = fn[:j]
			}
			return fn
		}
		if strings.HasPrefix(l, "verif/") || strings.HasPrefix(l, "testing.") || strings.HasPrefix(l, "created by") {
			return "" // reached the harness without passing through the repository
		}
		// standard library or dependency frames called by the code under test
		// (container/list, encoding, goleveldb ...): keep walking outwards
	}
	return ""
}
