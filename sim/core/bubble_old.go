//go:build !go1.25

package core

import (
	"testing"
	"time"
)

// Engines built with the repository's own (older) toolchain have no fake clock.
var SimEpoch = time.Date(2019, 1, 1, 0, 0, 0, 0, time.UTC)

func Bubble(t *testing.T, f func()) {
	panic("core.Bubble needs go1.25+ (testing/synctest); this engine was built with the default toolchain")
}
