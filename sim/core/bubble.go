//go:build go1.25

package core

import (
	"fmt"
	"runtime/debug"
	"testing"
	"testing/synctest"
	"time"
)

// SimEpoch is where every bubble's fake clock is moved before anything runs
// (a bubble starts at 2000-01-01; the chain's genesis is 2017-12-22).
var SimEpoch = time.Date(2019, 1, 1, 0, 0, 0, 0, time.UTC)

// Bubble runs f inside a testing/synctest bubble: fake clock, quiescence
// detection. Goroutines the code under test leaves parked (abandoned crashed
// instances, leveldb compaction) make synctest panic at the end of the bubble;
// that panic is expected and swallowed here.
func Bubble(t *testing.T, f func()) {
	var inner interface{}
	func() {
		defer func() {
			if r := recover(); r != nil {
				if s, ok := r.(string); ok && len(s) >= 8 && s[:8] == "deadlock" {
					return
				}
				if e, ok := r.(error); ok && len(e.Error()) >= 8 && e.Error()[:8] == "deadlock" {
					return
				}
				panic(r)
			}
		}()
		synctest.Test(t, func(t *testing.T) {
			defer func() {
				if r := recover(); r != nil {
					inner = fmt.Sprintf("%v\n%s", r, trimStack(debug.Stack()))
				}
			}()
			time.Sleep(time.Until(SimEpoch))
			f()
		})
	}()
	if inner != nil {
		panic(inner)
	}
}

