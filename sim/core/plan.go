package core

import (
	"crypto/sha256"
	"encoding/hex"
	"encoding/json"
	"fmt"
	"hash"
	"os"
	"runtime/debug"
	"sort"
	"testing"
)

// Plan is the explicit, serialisable description of one simulated run: knob
// values plus the list of operations and faults. Execution is a pure function
// of (plan, code under test). A replay file is a Plan plus the expected result.
type Plan struct {
	Engine   string            `json:"engine"`
	Property string            `json:"property"`
	Tier     string            `json:"tier"`
	Seed     uint64            `json:"seed"`
	Knobs    map[string]int64  `json:"knobs,omitempty"`
	Meta     map[string]string `json:"meta,omitempty"`
	Steps    []json.RawMessage `json:"steps"`
}

func (p *Plan) Knob(name string, def int64) int64 {
	if v, ok := p.Knobs[name]; ok {
		return v
	}
	return def
}

func (p *Plan) SetKnob(name string, v int64) {
	if p.Knobs == nil {
		p.Knobs = map[string]int64{}
	}
	p.Knobs[name] = v
}

func (p *Plan) Add(step interface{}) {
	b, err := json.Marshal(step)
	if err != nil {
		panic(err)
	}
	p.Steps = append(p.Steps, b)
}

func (p *Plan) Clone() *Plan {
	q := *p
	q.Steps = append([]json.RawMessage(nil), p.Steps...)
	q.Knobs = map[string]int64{}
	for k, v := range p.Knobs {
		q.Knobs[k] = v
	}
	return &q
}

// Violation is one oracle failure.
type Violation struct {
	Property  string `json:"property"`
	Oracle    string `json:"oracle"`
	Signature string `json:"signature"` // stable class: oracle + specific site/input shape
	Message   string `json:"message"`
	Step      int    `json:"step"`
	// Plan, when set, is the plan that reproduces exactly this violation
	// (engines that enumerate fault positions inside one Execute embed the
	// failing position here); otherwise the run's own plan is the replay.
	Plan *Plan `json:"plan,omitempty"`
}

// Outcome is what one execution reports.
type Outcome struct {
	Violations []Violation    `json:"violations,omitempty"`
	Notes      []string       `json:"notes,omitempty"`
	LogHash    string         `json:"log_hash"`
	Log        []string       `json:"log,omitempty"`
	Faults     map[string]int `json:"faults,omitempty"` // fault kind -> times it actually fired
	Probes     map[string]int `json:"probes,omitempty"` // rare-branch counters
	Steps      int            `json:"steps"`
	SimSeconds float64        `json:"sim_seconds"`
	Checks     int            `json:"checks"`             // oracle comparisons executed
	ChecksPost int            `json:"checks_after_fault"` // ... after at least one fault fired
	States     []uint64       `json:"states,omitempty"`   // distinct state fingerprints visited
	Sample     interface{}    `json:"sample,omitempty"`
	HarnessErr string         `json:"harness_error,omitempty"`
}

// Ctx is handed to an engine for one execution: event log, counters, oracle
// reporting. Nothing in here draws random numbers or reads a real clock.
type Ctx struct {
	T        *testing.T
	Plan     *Plan
	keepLog  bool
	hasher   hash.Hash
	lines    []string
	out      *Outcome
	states   map[uint64]struct{}
	faulted  bool
	CurStep  int
	stopOnV  bool
	MaxViols int
	// UnhashedViolations: record violations without an event-log line. For
	// oracles whose verdict is an observation that varies between identical
	// executions (the race detector's bounded history): the execution's event
	// log, and its hash, must not depend on what was observed about it.
	UnhashedViolations bool
}

func newCtx(t *testing.T, p *Plan, keepLog bool) *Ctx {
	c := &Ctx{T: t, Plan: p, keepLog: keepLog, out: &Outcome{Faults: map[string]int{}, Probes: map[string]int{}}, states: map[uint64]struct{}{}, MaxViols: 4}
	c.hasher = sha256.New()
	return c
}

// Logf appends one line to the event log (hashed; kept only when requested).
func (c *Ctx) Logf(format string, a ...interface{}) {
	s := fmt.Sprintf(format, a...)
	c.hasher.Write([]byte(s))
	c.hasher.Write([]byte{'\n'})
	if c.keepLog && len(c.lines) < 20000 {
		c.lines = append(c.lines, s)
	}
}

// Fault counts a fault that actually fired.
func (c *Ctx) Fault(kind string) {
	c.out.Faults[kind]++
	c.faulted = true
}

func (c *Ctx) Probe(name string) { c.out.Probes[name]++ }

func (c *Ctx) ProbeN(name string, n int) { c.out.Probes[name] += n }

// Check counts one executed oracle comparison.
func (c *Ctx) Check() {
	c.out.Checks++
	if c.faulted {
		c.out.ChecksPost++
	}
}

func (c *Ctx) State(fp uint64) {
	if len(c.states) < 4096 {
		c.states[fp] = struct{}{}
	}
}

func (c *Ctx) AddSimSeconds(s float64) { c.out.SimSeconds += s }

func (c *Ctx) Note(format string, a ...interface{}) {
	if len(c.out.Notes) < 16 {
		c.out.Notes = append(c.out.Notes, fmt.Sprintf(format, a...))
	}
}

func (c *Ctx) SetSample(s interface{}) {
	if c.out.Sample == nil {
		c.out.Sample = s
	}
}

// Violate records an oracle failure. Returns true when the run should stop.
func (c *Ctx) Violate(prop, oracle, signature, format string, a ...interface{}) bool {
	msg := fmt.Sprintf(format, a...)
	if !c.UnhashedViolations {
		c.Logf("VIOLATION %s %s %s", prop, oracle, signature)
	}
	for _, v := range c.out.Violations {
		if v.Signature == signature && v.Property == prop {
			return len(c.out.Violations) >= c.MaxViols
		}
	}
	c.out.Violations = append(c.out.Violations, Violation{Property: prop, Oracle: oracle, Signature: signature, Message: msg, Step: c.CurStep})
	return len(c.out.Violations) >= c.MaxViols
}

// ViolatePlan is Violate with an explicit reproducing plan.
func (c *Ctx) ViolatePlan(p *Plan, prop, oracle, signature, format string, a ...interface{}) bool {
	n := len(c.out.Violations)
	stop := c.Violate(prop, oracle, signature, format, a...)
	if len(c.out.Violations) > n {
		c.out.Violations[n].Plan = p
	}
	return stop
}

func (c *Ctx) NumViolations() int { return len(c.out.Violations) }

// AttachPlan sets the reproducing plan on violations recorded at index >= from.
func (c *Ctx) AttachPlan(from int, p *Plan) {
	for i := from; i < len(c.out.Violations); i++ {
		if c.out.Violations[i].Plan == nil {
			c.out.Violations[i].Plan = p
		}
	}
}

// KnownSigs holds the signatures listed as known findings for the property
// being checked (set by the worker from the request). A known finding is
// recorded and reported like any violation, but it does not stop the run, so
// exploration continues past a defect that is already on file.
var KnownSigs = map[string]bool{}

// Violated reports whether a violation that is not a listed known finding has
// been recorded; engines use it to stop a run.
func (c *Ctx) Violated() bool {
	for _, v := range c.out.Violations {
		if !KnownSigs[v.Property+"|"+v.Signature] {
			return true
		}
	}
	return false
}

// IsKnown says whether a signature is a listed known finding.
func (c *Ctx) IsKnown(prop, sig string) bool { return KnownSigs[prop+"|"+sig] }

func (c *Ctx) finish() *Outcome {
	c.out.LogHash = hex.EncodeToString(c.hasher.Sum(nil))[:32]
	if c.keepLog {
		c.out.Log = c.lines
	}
	for s := range c.states {
		c.out.States = append(c.out.States, s)
	}
	sort.Slice(c.out.States, func(i, j int) bool { return c.out.States[i] < c.out.States[j] })
	return c.out
}

// Engine is one simulated system + workload generator + oracles.
type Engine interface {
	Name() string
	// Generate draws a plan for the property from the rng. All randomness of
	// the run is consumed here; Execute draws nothing.
	Generate(r *Rng, property, tier string) *Plan
	// Execute runs the plan against the real code. Deterministic.
	Execute(c *Ctx)
	// Components lists what ran as real code and what was stubbed.
	Components() (real []string, stub []string)
}

// Run executes a plan with panic containment: a panic escaping the engine is a
// harness error (exit 2 at the driver), never a violation. Engines convert
// panics of the code under test into violations themselves where the property
// says "never panics".
func Run(t *testing.T, e Engine, p *Plan, keepLog bool) (out *Outcome) {
	c := newCtx(t, p, keepLog)
	defer func() {
		if r := recover(); r != nil {
			stack := debug.Stack()
			// (a panic inside a bubble is re-raised by Bubble as text that
			// carries the original stack)
			site := repoPanicSite(fmt.Sprint(r))
			if site == "" {
				site = repoPanicSite(string(stack))
			}
			if f := os.Getenv("SIM_DEBUG_PANIC"); f != "" && site == "" {
				os.WriteFile(f, []byte(fmt.Sprintf("%v\n----\n%s", r, stack)), 0644)
			}
			if site != "" && p.Property != "" {
				// the panic arose inside the code under test while the engine
				// was exercising it for this property: an operation that
				// crashes did not deliver what the property promises
				c.UnhashedViolations = false
				c.Violate(p.Property, "no-panic", p.Property+"/panic-in-code-under-test/"+site,
					"the code under test panicked in %s: %v", site, r)
				out = c.finish()
				return
			}
			out = c.finish()
			out.HarnessErr = fmt.Sprintf("panic in engine: %.1500v\n%s", r, trimStack(stack))
		}
	}()
	e.Execute(c)
	return c.finish()
}
