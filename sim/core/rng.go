// Package core is the engine-independent part of the deterministic simulator:
// the single PRNG every choice derives from, the explicit plan / replay format,
// the ddmin shrinker, the event log, and the worker side of the batch protocol.
package core

import (
	"encoding/binary"
	"hash/fnv"
)

// Rng is a splitmix64 generator. One Rng seeded from VERIF_SEED (mixed with the
// run index) is the only source of choices in a run. It is deliberately not
// math/rand: the node under simulation uses the process-global math/rand and
// must not share a stream with the simulator.
type Rng struct{ s uint64 }

func NewRng(seed uint64) *Rng { return &Rng{s: seed ^ 0x9E3779B97F4A7C15} }

func (r *Rng) U64() uint64 {
	r.s += 0x9E3779B97F4A7C15
	z := r.s
	z = (z ^ (z >> 30)) * 0xBF58476D1CE4E5B9
	z = (z ^ (z >> 27)) * 0x94D049BB133111EB
	return z ^ (z >> 31)
}

// Mix derives the seed of run idx from the base seed.
func Mix(base uint64, idx uint64) uint64 {
	r := NewRng(base*0x9E3779B97F4A7C15 + idx)
	r.U64()
	return r.U64()
}

// Fork derives an independent stream for a named purpose, so adding draws to
// one purpose does not shift every other one.
func (r *Rng) Fork(label string) *Rng {
	h := fnv.New64a()
	var b [8]byte
	binary.LittleEndian.PutUint64(b[:], r.U64())
	h.Write(b[:])
	h.Write([]byte(label))
	return NewRng(h.Sum64())
}

func (r *Rng) Intn(n int) int {
	if n <= 0 {
		return 0
	}
	return int(r.U64() % uint64(n))
}

func (r *Rng) Int63n(n int64) int64 {
	if n <= 0 {
		return 0
	}
	return int64(r.U64() % uint64(n))
}

// Range returns a value in [lo, hi].
func (r *Rng) Range(lo, hi int) int {
	if hi <= lo {
		return lo
	}
	return lo + r.Intn(hi-lo+1)
}

func (r *Rng) Float() float64 { return float64(r.U64()>>11) / float64(1<<53) }

func (r *Rng) Bool(p float64) bool { return r.Float() < p }

func (r *Rng) Bytes(n int) []byte {
	b := make([]byte, n)
	for i := 0; i < n; i += 8 {
		v := r.U64()
		for j := 0; j < 8 && i+j < n; j++ {
			b[i+j] = byte(v >> (8 * j))
		}
	}
	return b
}

func (r *Rng) Perm(n int) []int {
	p := make([]int, n)
	for i := range p {
		p[i] = i
	}
	for i := n - 1; i > 0; i-- {
		j := r.Intn(i + 1)
		p[i], p[j] = p[j], p[i]
	}
	return p
}

// Pick returns an index chosen with the given integer weights.
func (r *Rng) Pick(weights ...int) int {
	tot := 0
	for _, w := range weights {
		tot += w
	}
	if tot <= 0 {
		return 0
	}
	x := r.Intn(tot)
	for i, w := range weights {
		if x < w {
			return i
		}
		x -= w
	}
	return len(weights) - 1
}

// LogUniform returns a value in [lo,hi] distributed uniformly in log space.
func (r *Rng) LogUniform(lo, hi int64) int64 {
	if lo < 1 {
		lo = 1
	}
	if hi <= lo {
		return lo
	}
	bitsLo, bitsHi := 0, 0
	for v := lo; v > 1; v >>= 1 {
		bitsLo++
	}
	for v := hi; v > 1; v >>= 1 {
		bitsHi++
	}
	b := r.Range(bitsLo, bitsHi)
	v := int64(1) << uint(b)
	v += r.Int63n(v)
	if v < lo {
		v = lo
	}
	if v > hi {
		v = hi
	}
	return v
}
