//go:build !race

package core

// RaceEnabled reports whether the binary was built with the race detector.
const RaceEnabled = false
