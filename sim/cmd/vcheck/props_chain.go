package main

func chainProp(id, technique, text, note string) *Prop {
	return &Prop{
		ID: id, Engine: "chainsim", Level: "exploration", DesignRef: "DESIGN.md section 5 " + id,
		Technique: technique, LevelText: text, LevelNote: note,
		Rule:        "one evaluation = one simulated node run (4 funding blocks + 12-80 steps: blocks built on chosen parents by honest/Byzantine miners, held/duplicated/out-of-order deliveries, mempool submissions, node-mined blocks, restarts, clock advances). Distinct = distinct event-log hash; non-trivial = at least one fault/adversarial action fired and an oracle comparison ran after it.",
		Assumptions: []string{"ledger model (~300 lines, exact integers) labels validity from the property vocabulary", "PoW-era regnet heights; instant proof of work via PowLimitBits configuration", "goleveldb trusted"},
		Quick:       Budget{Runs: 600, WallS: 45, Batch: 12, RunTimeoutS: 60},
		Thorough:    Budget{Runs: 200000, WallS: 900, Batch: 25, RunTimeoutS: 60},
	}
}

func init() {
	engineKinds["chainsim"] = "deterministic whole-node simulation: real BlockChain + ChainStore(ffldb) + indexers + UTXOCache + TxPool + pow.Service + tx checkers inside one synctest bubble; peers, miners and clients are simulated (honest and Byzantine) actors; ledger reference model"
	props = append(props,
		chainProp("C01", "deterministic whole-node simulation: a Byzantine client (mempool) and a Byzantine miner (blocks) submit transfers whose individually non-negative outputs wrap past 2^63/2^64, exceed inputs by one sela, or undercut the minimum fee, across forks, reorgs and restarts; every accepted transaction/block is re-checked in exact integers by the ledger model",
			"Every transaction the node admits to its mempool and every block on its active chain is labelled by the ledger model with exact (big.Int) sums of the outputs it spends and creates; acceptance of anything labelled outputs-exceed-inputs / negative-output / fee-too-small is a violation; the unspent total never exceeds issuance.",
			"Amount vectors are adversarially chosen around the int64 boundary (4x2^62, 2x2^62, 2^63-1+small, -1, +1 sela), not all vectors; TransferAsset only (CRCProposalWithdraw fee path not reached in the PoW-era regime)."),
		chainProp("C05", "deterministic whole-node simulation: key-less Byzantine clients and a corrupting relay (wrong key, other actor's code, content altered after signing, signature of a different transaction, missing program, someone else's output) against honest signed traffic, through mempool and blocks, across forks and restarts",
			"The harness knows which private key signed which exact bytes; an accepted transaction (mempool or active chain) must carry, for every owner of a spent output, a valid signature by that owner over exactly its unsigned content; honest spends must be accepted in the fault-free stratum.",
			"Standard single-signature programs only in this engine (multisig / Schnorr signer-count clauses are exercised by walletsim C37); signing by clients is done by a harness signer (crypto.Sign cannot run under the go1.26 crypto/ecdsa the harness is built with), verification is the node's real RunPrograms."),
		chainProp("C06", "deterministic whole-node simulation: deliberate re-spends (same outpoint twice in a tx, in two txs of a block, across blocks, across a fork, after a reorg back, pooled vs pooled, pooled vs chain, never-created and already-spent outpoints, same-block outputs) with out-of-order/duplicate delivery, reorgs and restarts",
			"After every step the ledger model replays the active chain: each outpoint is consumed at most once and only after creation; a block the model labels as double-spending must not be on the active chain; the mempool never holds two spends of one outpoint nor (after the node's post-block cleanup) a spend of an outpoint already spent on the active chain.",
			"Transfers between 3-6 seeded addresses; PoW-era heights."),
		chainProp("C14", "deterministic whole-node simulation: transfers (including zero-value outputs) over forks, reorganisations, orphan resolution and restarts; after every step every queryable view is compared with the UTXO set obtained by replaying the active chain in the model",
			"After every step, for every transaction of the active chain GetUnspent equals the model's unspent indexes and GetTransaction returns it at the model's height; transactions only on inactive branches are not found; per address GetUTXO equals the model list without zero-value outputs and Ledger.GetAmount equals its exact sum.",
			"All txids of the run are compared at every step (runs are small); restart exercises the index catch-up path."),
		chainProp("C32", "deterministic whole-node simulation: the node runs with one actor's address frozen from a plan-chosen height; honest and Byzantine traffic places that address at every input and output position, in mempool submissions and in blocks (including blocks on forks that cross the start height and reorganisations across it), with restarts",
			"Every transaction admitted to the mempool and every block on the active chain is labelled by the model: from the start height on, a non-coinbase transaction that spends an output owned by the frozen address or pays to it must not be accepted; before it (and for coinbases) it must be (fault-free stratum).",
			"Only the node-side rule is claimed; the clause 'on mainnet the frozen list is the coordinated one whatever the local configuration says' is a property of settings.SetupConfig with no schedule or fault in it and is not decided by this check."),
		chainProp("C07", "deterministic whole-node simulation: for valid blocks of 1..12 transactions built on the node's tip, a Byzantine relay first shows the node every kind of single mutation of the transaction list (change, remove, reorder, duplicate, duplicated tail = CVE-2012-2459 shape, coinbase moved, second coinbase) with the header untouched, and with the merkle root recomputed and re-mined where that keeps it rule-breaking; then the original",
			"Each mutant must be rejected by ProcessBlock and leave the tip unchanged; blocks whose merkle root / coinbase position / duplicate-transaction rules are broken by a Byzantine miner (chainsim's ordinary workload) must never be on the active chain.",
			"Lengths 1..12, odd and even (probes per length); 'all single mutations' is sampled per block (about 20 mutants per block), not enumerated."),
		chainProp("C03", "deterministic whole-node simulation: Byzantine peers and clients deliver decodable but malformed material through the node's own ingress (ProcessBlock, AppendToTxPool, GenerateBlock): spends from addresses whose redeem script is a truncated / inconsistent multisig, garbage-key, Schnorr-shaped or cross-chain-shaped script with arbitrary parameter bytes, structurally mutated blocks, alongside the ordinary fork/reorg/restart workload; a panic anywhere in validation is caught at the ingress and reported",
			"Every delivery runs under a recover at the ingress: a panic of sanity / context / signature / merged-mining validation is a violation (signature names the ingress and the shape); the node must also keep satisfying the chain invariants afterwards.",
			"Shapes are a fixed catalogue (18 script shapes x 8 parameter shapes x 4 address prefixes) combined by seed with chain histories, not all decodable inputs; aux-proof crash shapes are exercised by auxsim (C10) and recorded there; PoW-era height regime."),
		chainProp("C12", "deterministic whole-node simulation: seeded block trees (forks, heavier/equal/lighter branches, invalid blocks inside branches) delivered in permuted order with holds, duplicates and restarts; after every step the active chain is compared with the model's most-work valid chain among blocks the node retains",
			"After every delivery and quiescence: the active chain consists of model-valid blocks; no valid chain whose blocks the node retains has strictly more work (irreversibility exception honoured); a delivery that errors must not move the node off its previous valid chain to a lighter one; height / per-height hashes / best chain agree.",
			"\"Knows\" = what the node itself retains (BlockExists); equal work never obliges a switch; time-dependent rejections are generated away from the boundary."),
	)
}
