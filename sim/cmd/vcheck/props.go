package main

import (
	"encoding/json"
	"fmt"
	"os"
	"path/filepath"
	"strings"
)

// Budget bounds one check invocation.
type Budget struct {
	Runs        int `json:"runs"`          // at most this many simulated runs
	WallS       int `json:"wall_s"`        // stop handing out batches after this many seconds
	Batch       int `json:"batch"`         // runs per worker process
	RunTimeoutS int `json:"run_timeout_s"` // watchdog per run
}

// Prop is one claimed property: which engine decides it and how hard.
type Prop struct {
	ID          string
	Engine      string
	// AlsoEngine: a second engine that decides another half of the property;
	// every AlsoEvery-th batch of runs (by run index, so that a run index always
	// names the same engine) goes to it. Replay files carry their own engine.
	// CrashIsViolation: the property says the code never crashes the node, so a
	// worker process that dies while executing a run (a fatal runtime error that
	// no recover can contain, e.g. a failed multi-GiB allocation), confirmed in
	// fresh processes, is a violation and not harness trouble.
	CrashIsViolation bool
	AlsoEngine string
	AlsoEvery  int
	Race        bool
	Level       string // EVIDENCE level enum
	LevelText   string
	LevelNote   string
	Technique   string
	DesignRef   string
	Rule        string
	Assumptions []string
	Quick       Budget
	Thorough    Budget
	MustProbes  []string
}

// NotApplicable lists properties not claimed, with the reason.
var notApplicable = []struct{ ID, Reason string }{
	{"C36", "RPC access control is a pure predicate of (remote address, whitelist, credentials, header) plus a static fact about which handlers call the service-level gate; there is no schedule, clock, fault, crash point or second party for a simulator to own (DESIGN.md section 7)."},
}

var props = []*Prop{}

func findProp(id string) *Prop {
	for _, p := range props {
		if p.ID == id {
			return p
		}
	}
	return nil
}

func writeManifest() int {
	type check struct {
		PropertyID string                 `json:"property_id"`
		Quick      string                 `json:"quick_cmd"`
		Thorough   string                 `json:"thorough_cmd"`
		Evidence   string                 `json:"evidence_file"`
		Replay     string                 `json:"replay_cmd_template"`
		Engine     string                 `json:"engine"`
		Level      map[string]interface{} `json:"level_claimed"`
		Note       string                 `json:"level_note"`
		Technique  string                 `json:"technique"`
	}
	var checks []check
	engines := map[string][]string{}
	var order []string
	held := holdback()
	for _, p := range props {
		if _, h := held[p.ID]; h {
			continue
		}
		checks = append(checks, check{
			PropertyID: p.ID,
			Quick:      "./check " + p.ID + " quick",
			Thorough:   "./check " + p.ID + " thorough",
			Evidence:   "/verif/evidence/" + p.ID + ".json",
			Replay:     "./check replay {path}",
			Engine:     p.Engine,
			Level:      map[string]interface{}{"category": p.Level, "text": p.LevelText, "design_ref": p.DesignRef},
			Note:       p.LevelNote,
			Technique:  p.Technique,
		})
		if _, ok := engines[p.Engine]; !ok {
			order = append(order, p.Engine)
		}
		engines[p.Engine] = append(engines[p.Engine], p.ID)
	}
	var engs []map[string]interface{}
	for _, e := range order {
		engs = append(engs, map[string]interface{}{"name": e, "path": "/verif/sim/engines/" + e, "serves_properties": engines[e], "kind_free_text": engineKinds[e]})
	}
	var na []map[string]string
	claimed := map[string]bool{}
	for _, p := range props {
		if reason, h := held[p.ID]; h {
			na = append(na, map[string]string{"property_id": p.ID, "reason": "not claimed yet: " + reason})
			claimed[p.ID] = true
			continue
		}
		claimed[p.ID] = true
	}
	for _, n := range notApplicable {
		if !claimed[n.ID] {
			na = append(na, map[string]string{"property_id": n.ID, "reason": n.Reason})
		}
	}
	for _, n := range notYet {
		if !claimed[n.ID] {
			na = append(na, map[string]string{"property_id": n.ID, "reason": n.Reason})
		}
	}
	hooks := map[string]interface{}{
		"guard":            "verif",
		"enable":           "go build tag: checks build /repo with `-tags verif` (GOTOOLCHAIN=local go1.26.8 test -c -tags verif ./engines/<engine> in /verif/sim, which replaces the module with /repo)",
		"baseline_off_cmd": "cd /repo && GOFLAGS=-mod=mod GOPROXY=off GOSUMDB=off go test -vet=off -count=1 -timeout 25m ./...",
		"source_commits":   hookCommits(),
		"add_only":         true,
	}
	m := map[string]interface{}{
		"version":        1,
		"setup_cmd":      "cd /verif && ./setup.sh",
		"hooks":          hooks,
		"engines":        engs,
		"checks":         checks,
		"not_applicable": na,
		"notes":          "Deterministic simulation with fault injection. One seed = one repeatable run; ./check <id> quick|thorough; ./check replay <file>. Exit 2 = harness/build/watchdog trouble (never a violation). See DESIGN.md.",
	}
	b, _ := json.MarshalIndent(m, "", " ")
	if err := os.WriteFile(filepath.Join(verifRoot, "MANIFEST.json"), append(b, '\n'), 0644); err != nil {
		fmt.Fprintln(os.Stderr, err)
		return 2
	}
	fmt.Printf("MANIFEST.json: %d checks, %d not claimed\n", len(checks), len(na))
	return 0
}

func hookCommits() []string {
	b, err := os.ReadFile(filepath.Join(verifRoot, "hook_commits.txt"))
	if err != nil {
		return []string{}
	}
	var out []string
	cur := ""
	for _, c := range b {
		if c == '\n' {
			if cur != "" {
				out = append(out, cur)
			}
			cur = ""
		} else {
			cur += string(c)
		}
	}
	if cur != "" {
		out = append(out, cur)
	}
	return out
}

var engineKinds = map[string]string{}

// oldGoEngines are built with the repository's default toolchain instead of
// go1.26.8 (they do not use testing/synctest).
var oldGoEngines = map[string]bool{}

// notYet: properties for which no check is registered (yet); each is listed in
// MANIFEST.not_applicable with the honest reason "not built" until claimed.
var notYet = []struct{ ID, Reason string }{}

func init() {
	ids := []string{}
	for i := 1; i <= 40; i++ {
		ids = append(ids, fmt.Sprintf("C%02d", i))
	}
	for _, id := range ids {
		if id == "C36" {
			continue
		}
		notYet = append(notYet, struct{ ID, Reason string }{id, "no check registered: the simulation engine for this property has not been built/validated yet (not a claim that the technique cannot apply; see DESIGN.md section 5)"})
	}
}

// holdback reads /verif/holdback.txt: "<Cxx> <reason>" per line. A property
// listed there has an engine in the tree that is still being validated; it is
// not emitted as a check (MANIFEST lists it as not claimed, with the reason).
func holdback() map[string]string {
	out := map[string]string{}
	b, err := os.ReadFile(filepath.Join(verifRoot, "holdback.txt"))
	if err != nil {
		return out
	}
	for _, line := range strings.Split(string(b), "\n") {
		line = strings.TrimSpace(line)
		if line == "" || strings.HasPrefix(line, "#") {
			continue
		}
		id, reason, _ := strings.Cut(line, " ")
		out[id] = strings.TrimSpace(reason)
	}
	return out
}
