// vcheck is the driver behind /verif/check: it rebuilds the engine test binary
// against /repo's working tree (build tag verif), fans seeds out to worker
// processes, aggregates coverage into the evidence file, minimises and replays
// violations, and applies /verif/known_findings.json.
//
// Exit status: 0 property held on everything explored (KNOWN-FINDING lines
// allowed), 1 violation (with a VIOLATION line), 2 harness/build/watchdog
// trouble (never reported as a violation).
package main

import (
	"bufio"
	"bytes"
	"crypto/sha256"
	"encoding/hex"
	"encoding/json"
	"fmt"
	"os"
	"os/exec"
	"path/filepath"
	"runtime"
	"sort"
	"strconv"
	"strings"
	"sync"
	"time"

	"verif/sim/core"
)

// verifRoot is where the framework sources live (a vp-run snapshot sets
// VERIF_ROOT through ./check); outRoot is where evidence, replays and binaries
// go (VERIF_OUT; default verifRoot); repoRoot is the tree under test
// (VERIF_REPO; default /repo - scratch copies are used for mutant runs only).
var (
	verifRoot = envOr("VERIF_ROOT", "/verif")
	outRoot   = envOr("VERIF_OUT", verifRoot)
	repoRoot  = envOr("VERIF_REPO", "/repo")
)

func envOr(k, d string) string {
	if v := os.Getenv(k); v != "" {
		return v
	}
	return d
}

func main() {
	if len(os.Args) < 2 {
		usage()
	}
	switch os.Args[1] {
	case "run":
		if len(os.Args) < 4 {
			usage()
		}
		rc := runCheck(os.Args[2], os.Args[3])
		cleanupBins()
		os.Exit(rc)
	case "replay":
		if len(os.Args) < 3 {
			usage()
		}
		rc := replay(os.Args[2])
		cleanupBins()
		os.Exit(rc)
	case "selftest":
		if len(os.Args) < 3 {
			usage()
		}
		n := 30
		if len(os.Args) > 3 {
			n, _ = strconv.Atoi(os.Args[3])
		}
		rc := selftest(os.Args[2], n)
		cleanupBins()
		os.Exit(rc)
	case "manifest":
		os.Exit(writeManifest())
	case "list":
		for _, p := range props {
			fmt.Println(p.ID, p.Engine)
		}
	default:
		usage()
	}
}

func usage() {
	fmt.Fprintln(os.Stderr, "usage: vcheck run <Cxx> quick|thorough | replay <file> | selftest <Cxx> [n] | manifest | list")
	os.Exit(2)
}

func goEnv() []string {
	env := os.Environ()
	env = append(env, "GOFLAGS=-mod=mod", "GOPROXY=off", "GOSUMDB=off", "GOTOOLCHAIN=local", "GONOSUMDB=*", "GONOSUMCHECK=1")
	return env
}

func goBin() string {
	if p, err := exec.LookPath("go1.26.8"); err == nil {
		return p
	}
	return "/opt/veriftools/go1.26.8/bin/go"
}

var buildMu sync.Mutex

// builtBins are per-process engine binaries, removed on exit.
var builtBins []string

func cleanupBins() {
	for _, b := range builtBins {
		os.Remove(b)
	}
}

// buildEngine compiles the engine's test binary from the repo's current tree.
func buildEngine(engine string, race bool) (string, error) {
	buildMu.Lock()
	defer buildMu.Unlock()
	binDir := filepath.Join(outRoot, "bin")
	os.MkdirAll(binDir, 0755)
	simDir := filepath.Join(verifRoot, "sim")
	out := filepath.Join(binDir, fmt.Sprintf("%s-%d.test", engine, os.Getpid()))
	args := []string{"test", "-c", "-tags", "verif", "-vet=off"}
	if race {
		out = filepath.Join(binDir, fmt.Sprintf("%s-%d.race.test", engine, os.Getpid()))
		args = append(args, "-race")
	}
	builtBins = append(builtBins, out)
	// The module file is generated per build so that the replace directive
	// names the tree under test; go.sum is the repo's own plus ours.
	modBase, err := os.ReadFile(filepath.Join(simDir, "go.mod"))
	if err != nil {
		return "", err
	}
	mod := strings.Replace(string(modBase), "=> /repo", "=> "+repoRoot, 1)
	gobin := goBin()
	tcTag := ""
	if oldGoEngines[engine] {
		// Engine built with the repository's own toolchain (no synctest): the
		// code under test then runs exactly as shipped (e.g. crypto.Sign, which
		// newer crypto/ecdsa rejects because it leaves the public key unset).
		gobin, tcTag = "go", "-oldgo"
		mod = "module verif/sim\n\ngo 1.20\n\nrequire github.com/elastos/Elastos.ELA v0.0.0\n\nreplace github.com/elastos/Elastos.ELA => " + repoRoot + "\n"
	}
	h := sha256.Sum256([]byte(repoRoot + "|" + simDir + tcTag))
	modPath := filepath.Join(binDir, "sim-"+hex.EncodeToString(h[:4])+".mod")
	if err := os.WriteFile(modPath, []byte(mod), 0644); err != nil {
		return "", err
	}
	sum, _ := os.ReadFile(filepath.Join(repoRoot, "go.sum"))
	extra, _ := os.ReadFile(filepath.Join(simDir, "go.sum"))
	os.WriteFile(strings.TrimSuffix(modPath, ".mod")+".sum", append(append(sum, '\n'), extra...), 0644)
	args = append(args, "-modfile="+modPath, "-o", out, "./engines/"+engine)
	cmd := exec.Command(gobin, args...)
	cmd.Dir = simDir
	cmd.Env = goEnv()
	var buf bytes.Buffer
	cmd.Stdout, cmd.Stderr = &buf, &buf
	if err := cmd.Run(); err != nil {
		return "", fmt.Errorf("build of engine %s failed: %v\n%s", engine, err, buf.String())
	}
	return out, nil
}

func tmpRoot() string {
	for _, d := range []string{"/dev/shm", os.TempDir()} {
		if st, err := os.Stat(d); err == nil && st.IsDir() {
			p := filepath.Join(d, fmt.Sprintf("vsim-%d", os.Getpid()))
			if os.MkdirAll(p, 0755) == nil {
				return p
			}
		}
	}
	return "."
}

type workerResult struct {
	recs []core.RunRecord
	err  error
	log  string
}

func runWorker(bin string, req *core.Request, tmp string, tag string, timeout time.Duration, gomaxprocs int) workerResult {
	for _, k := range loadKnown() {
		if k.Status == "known" {
			req.Known = append(req.Known, k.Property+"|"+k.Signature)
		}
	}
	reqPath := filepath.Join(tmp, "req-"+tag+".json")
	req.Out = filepath.Join(tmp, "out-"+tag+".jsonl")
	b, _ := json.Marshal(req)
	if err := os.WriteFile(reqPath, b, 0644); err != nil {
		return workerResult{err: err}
	}
	defer os.Remove(reqPath)
	defer os.Remove(req.Out)
	wdir := filepath.Join(tmp, "w-"+tag)
	os.MkdirAll(wdir, 0755)
	defer os.RemoveAll(wdir)
	cmd := exec.Command(bin, "-test.run=^TestSim$", "-test.timeout=0", "-test.count=1")
	cmd.Dir = wdir
	cmd.Env = append(os.Environ(), "SIM_REQ="+reqPath, "SIM_TMP="+wdir, fmt.Sprintf("GOMAXPROCS=%d", gomaxprocs), "GORACE=halt_on_error=0 exitcode=0 log_path="+filepath.Join(wdir, "race"))
	var buf bytes.Buffer
	cmd.Stdout, cmd.Stderr = &buf, &buf
	if err := cmd.Start(); err != nil {
		return workerResult{err: err}
	}
	done := make(chan error, 1)
	go func() { done <- cmd.Wait() }()
	var werr error
	select {
	case werr = <-done:
	case <-time.After(timeout):
		cmd.Process.Kill()
		<-done
		werr = fmt.Errorf("watchdog: worker exceeded %v", timeout)
	}
	res := workerResult{log: buf.String()}
	f, err := os.Open(req.Out)
	if err == nil {
		sc := bufio.NewScanner(f)
		sc.Buffer(make([]byte, 1<<20), 1<<28)
		for sc.Scan() {
			var r core.RunRecord
			if json.Unmarshal(sc.Bytes(), &r) == nil && r.Outcome != nil {
				res.recs = append(res.recs, r)
			}
		}
		f.Close()
	}
	if werr != nil {
		// (the fatal line of a runtime death is at the head of a long goroutine dump)
		res.err = fmt.Errorf("%v\n%s\n%s", werr, fatalLine(buf.String()), tail(buf.String(), 4000))
	}
	return res
}

func contains(l []string, x string) bool {
	for _, y := range l {
		if y == x {
			return true
		}
	}
	return false
}

func tail(s string, n int) string {
	if len(s) <= n {
		return s
	}
	return s[len(s)-n:]
}

type agg struct {
	runs, steps, checks, checksPost int
	simSeconds                      float64
	faults, probes                  map[string]int
	logHashes                       map[string]struct{}
	nontrivial                      map[string]struct{}
	states                          map[uint64]struct{}
	samples                         []interface{}
	real, stub                      []string
	viol                            map[string]*violRec // by signature
	notes                           map[string]int
	wallMs                          float64
}

// unknownViolations counts distinct violation signatures that are not listed
// known findings.
func (a *agg) unknownViolations(prop string) int {
	n := 0
	for sig := range a.viol {
		if !knownSet[prop+"|"+sig] {
			n++
		}
	}
	return n
}

var knownSet = func() map[string]bool {
	m := map[string]bool{}
	for _, k := range loadKnown() {
		if k.Status == "known" {
			m[k.Property+"|"+k.Signature] = true
		}
	}
	return m
}()

type violRec struct {
	v     core.Violation
	plan  *core.Plan
	count int
}

func newAgg() *agg {
	return &agg{faults: map[string]int{}, probes: map[string]int{}, logHashes: map[string]struct{}{}, nontrivial: map[string]struct{}{}, states: map[uint64]struct{}{}, viol: map[string]*violRec{}, notes: map[string]int{}}
}

func (a *agg) add(prop string, r *core.RunRecord) {
	o := r.Outcome
	a.runs++
	a.steps += r.NSteps
	a.checks += o.Checks
	a.checksPost += o.ChecksPost
	a.simSeconds += o.SimSeconds
	a.wallMs += r.WallMs
	nf := 0
	for k, v := range o.Faults {
		a.faults[k] += v
		nf += v
	}
	for k, v := range o.Probes {
		a.probes[k] += v
	}
	a.logHashes[o.LogHash] = struct{}{}
	if nf > 0 && o.ChecksPost > 0 {
		a.nontrivial[o.LogHash] = struct{}{}
	}
	for _, s := range o.States {
		if len(a.states) < 5_000_000 {
			a.states[s] = struct{}{}
		}
	}
	if o.Sample != nil && len(a.samples) < 3 {
		a.samples = append(a.samples, o.Sample)
	}
	if len(r.Real) > 0 {
		// (union: a property decided by two engines lists both engines' components)
		for _, x := range r.Real {
			if !contains(a.real, x) {
				a.real = append(a.real, x)
			}
		}
		for _, x := range r.Stub {
			if !contains(a.stub, x) {
				a.stub = append(a.stub, x)
			}
		}
	}
	for _, n := range o.Notes {
		a.notes[n]++
	}
	for _, v := range o.Violations {
		if v.Property != prop {
			a.notes[fmt.Sprintf("other-property violation seen: %s %s", v.Property, v.Signature)]++
			continue
		}
		plan := r.Plan
		if v.Plan != nil {
			plan = v.Plan
		}
		v.Plan = nil
		vr := a.viol[v.Signature]
		if vr == nil {
			vr = &violRec{v: v, plan: plan}
			a.viol[v.Signature] = vr
		} else if plan != nil && (vr.plan == nil || len(plan.Steps) < len(vr.plan.Steps)) {
			vr.plan = plan
			vr.v = v
		}
		vr.count++
	}
}

type knownFinding struct {
	Property  string `json:"property"`
	Signature string `json:"signature"`
	Status    string `json:"status"` // known | fixed
	Commit    string `json:"commit,omitempty"`
	What      string `json:"what"`
}

func loadKnown() []knownFinding {
	var k struct {
		Findings []knownFinding `json:"findings"`
	}
	b, err := os.ReadFile(filepath.Join(verifRoot, "known_findings.json"))
	if err != nil {
		return nil
	}
	if err := json.Unmarshal(b, &k); err != nil {
		fmt.Fprintf(os.Stderr, "HARNESS: known_findings.json unreadable: %v\n", err)
		os.Exit(2)
	}
	out := k.Findings
	// per-engine continuation files (same format): known_findings_<engine>.json
	more, _ := filepath.Glob(filepath.Join(verifRoot, "known_findings_*.json"))
	sort.Strings(more)
	for _, f := range more {
		var k2 struct {
			Findings []knownFinding `json:"findings"`
		}
		b, err := os.ReadFile(f)
		if err != nil {
			continue
		}
		if err := json.Unmarshal(b, &k2); err != nil {
			fmt.Fprintf(os.Stderr, "HARNESS: %s unreadable: %v\n", f, err)
			os.Exit(2)
		}
		for _, x := range k2.Findings {
			if x.Status == "" {
				x.Status = "known"
			}
			out = append(out, x)
		}
	}
	return out
}

func envSeed() uint64 {
	if s := os.Getenv("VERIF_SEED"); s != "" {
		if v, err := strconv.ParseUint(s, 10, 64); err == nil {
			return v
		}
		if v, err := strconv.ParseInt(s, 10, 64); err == nil {
			return uint64(v)
		}
	}
	return 1
}

func runCheck(id, tier string) int {
	p := findProp(id)
	if p == nil {
		fmt.Fprintf(os.Stderr, "unknown or unclaimed property %s\n", id)
		return 2
	}
	if tier != "quick" && tier != "thorough" {
		usage()
	}
	t0 := time.Now()
	bin, err := buildEngine(p.Engine, p.Race)
	if err != nil {
		fmt.Fprintf(os.Stderr, "HARNESS: %v\n", err)
		return 2
	}
	bins := map[string]string{p.Engine: bin}
	if p.AlsoEngine != "" {
		bin2, err := buildEngine(p.AlsoEngine, p.Race)
		if err != nil {
			fmt.Fprintf(os.Stderr, "HARNESS: %v\n", err)
			return 2
		}
		bins[p.AlsoEngine] = bin2
	}
	binFor := func(lo, batch int) string {
		if p.AlsoEngine != "" && p.AlsoEvery > 0 && (lo/batch)%p.AlsoEvery == p.AlsoEvery-1 {
			return bins[p.AlsoEngine]
		}
		return bin
	}
	buildS := time.Since(t0).Seconds()
	b := p.Quick
	if tier == "thorough" {
		b = p.Thorough
	}
	if v := os.Getenv("VERIF_RUNS"); v != "" {
		if n, err := strconv.Atoi(v); err == nil {
			b.Runs = n
		}
	}
	if v := os.Getenv("VERIF_WALL"); v != "" {
		if n, err := strconv.Atoi(v); err == nil {
			b.WallS = n
		}
	}
	base := envSeed()
	tmp := tmpRoot()
	defer os.RemoveAll(tmp)
	workers := runtime.NumCPU()
	if v := os.Getenv("VERIF_WORKERS"); v != "" {
		if n, err := strconv.Atoi(v); err == nil && n > 0 {
			workers = n
		}
	}
	batch := b.Batch
	if batch <= 0 {
		batch = 25
	}
	a := newAgg()
	var mu sync.Mutex
	var harnessErr []string
	var crashed *crashRec // the run in progress when a worker process died (CrashIsViolation properties)
	next := 0
	deadline := time.Now().Add(time.Duration(b.WallS) * time.Second) // the budget starts after the build
	var wg sync.WaitGroup
	for w := 0; w < workers; w++ {
		wg.Add(1)
		go func(w int) {
			defer wg.Done()
			for bn := 0; ; bn++ {
				mu.Lock()
				if next >= b.Runs || time.Now().After(deadline) || len(harnessErr) > 0 || crashed != nil || (a.unknownViolations(id) >= 6 && os.Getenv("VERIF_ENUM") == "") {
					mu.Unlock()
					return
				}
				lo := next
				hi := lo + batch
				if hi > b.Runs {
					hi = b.Runs
				}
				next = hi
				mu.Unlock()
				req := &core.Request{Mode: "batch", Property: id, Tier: tier}
				for i := lo; i < hi; i++ {
					req.Seeds = append(req.Seeds, core.Mix(base, uint64(i)))
					req.Idx = append(req.Idx, uint64(i))
				}
				perRun := b.RunTimeoutS
				if perRun <= 0 {
					perRun = 60
				}
				res := runWorker(binFor(lo, batch), req, tmp, fmt.Sprintf("%d-%d", w, bn), time.Duration(perRun*(hi-lo))*time.Second+30*time.Second, 1)
				mu.Lock()
				for i := range res.recs {
					r := &res.recs[i]
					if r.Outcome.HarnessErr != "" {
						harnessErr = append(harnessErr, fmt.Sprintf("seed %d: %s", r.Seed, r.Outcome.HarnessErr))
						continue
					}
					a.add(id, r)
				}
				if res.err != nil && p.CrashIsViolation && crashed == nil && looksLikeProcessDeath(res.err.Error()) {
					// which run was in progress?
					done := map[uint64]bool{}
					for _, r := range res.recs {
						done[r.Seed] = true
					}
					for _, sd := range req.Seeds {
						if !done[sd] {
							crashed = &crashRec{seed: sd, bin: binFor(lo, batch), log: res.err.Error()}
							break
						}
					}
					if crashed == nil {
						harnessErr = append(harnessErr, res.err.Error())
					}
				} else if res.err != nil {
					if !(p.CrashIsViolation && crashed != nil && looksLikeProcessDeath(res.err.Error())) {
						harnessErr = append(harnessErr, res.err.Error())
					}
				} else if len(res.recs) != hi-lo {
					harnessErr = append(harnessErr, fmt.Sprintf("worker returned %d of %d records\n%s", len(res.recs), hi-lo, tail(res.log, 3000)))
				}
				mu.Unlock()
			}
		}(w)
	}
	wg.Wait()
	if len(harnessErr) > 0 {
		fmt.Fprintf(os.Stderr, "HARNESS: %s\n", strings.Join(harnessErr[:min(len(harnessErr), 3)], "\n---\n"))
		return 2
	}
	crashPath, crashMsg := "", ""
	if crashed != nil {
		var cerr error
		crashPath, crashMsg, cerr = confirmCrash(p, crashed, tier, tmp)
		if cerr != nil {
			fmt.Fprintf(os.Stderr, "HARNESS: a worker process died and the death could not be pinned on one run: %v\n%s\n", cerr, tail(crashed.log, 3000))
			return 2
		}
	}
	if a.runs == 0 && crashed == nil {
		fmt.Fprintln(os.Stderr, "HARNESS: no runs completed")
		return 2
	}

	// Violations: known findings vs new.
	known := loadKnown()
	exit := 0
	var sigs []string
	for s := range a.viol {
		sigs = append(sigs, s)
	}
	sort.Strings(sigs)
	nviol := 0
	replayTrouble := 0
	var knownLines []string
	for _, sig := range sigs {
		vr := a.viol[sig]
		isKnown := false
		for _, k := range known {
			if k.Property == id && k.Status == "known" && k.Signature == sig {
				isKnown = true
				line := fmt.Sprintf("KNOWN-FINDING: property=%s %s [signature %s; seen in %d runs]", id, k.What, sig, vr.count)
				knownLines = append(knownLines, line)
				fmt.Println(line)
			}
		}
		if isKnown {
			continue
		}
		if os.Getenv("VERIF_ENUM") != "" {
			// developer aid (triage of a family of findings): list every
			// signature met, no minimisation, no verdict
			fmt.Printf("ENUM %s %s count=%d :: %s\n", id, sig, vr.count, vr.v.Message)
			continue
		}
		nviol++
		vbin := bin
		if vr.plan != nil && bins[vr.plan.Engine] != "" {
			vbin = bins[vr.plan.Engine]
		}
		path, herr := minimiseAndWrite(vbin, p, vr, tmp)
		if herr != nil {
			// one signature that does not replay must not take away the verdict
			// of the others: reported, and exit 2 only if nothing else was found
			fmt.Fprintf(os.Stderr, "HARNESS: %v\n", herr)
			replayTrouble++
			nviol--
			continue
		}
		fmt.Printf("VIOLATION property=%s replay=%s\n", id, path)
		fmt.Printf("  oracle=%s signature=%s\n  %s\n", vr.v.Oracle, sig, vr.v.Message)
		exit = 1
	}
	if replayTrouble > 0 && exit == 0 && crashPath == "" {
		return 2
	}
	if crashPath != "" {
		nviol++
		fmt.Printf("VIOLATION property=%s replay=%s\n", id, crashPath)
		fmt.Printf("  oracle=process-survives signature=%s/worker-process-killed\n  %s\n", id, crashMsg)
		exit = 1
	}
	wall := time.Since(t0).Seconds()
	if err := writeEvidence(p, tier, base, a, wall, buildS, nviol, knownLines, b); err != nil {
		fmt.Fprintf(os.Stderr, "HARNESS: evidence: %v\n", err)
		return 2
	}
	nfaults := uint64(0)
	for _, n := range a.faults {
		nfaults += uint64(n)
	}
	// (per-kind fault counts are in the evidence file; VERIF_VERBOSE=1 prints them)
	if os.Getenv("VERIF_VERBOSE") != "" {
		fmt.Printf("faults: %v\n", sortedCounts(a.faults))
	}
	fmt.Printf("%s %s: runs=%d distinct_logs=%d nontrivial=%d states=%d checks=%d fault_kinds=%d faults_fired=%d wall=%.1fs (build %.1fs) violations=%d\n",
		id, tier, a.runs, len(a.logHashes), len(a.nontrivial), len(a.states), a.checks, len(a.faults), nfaults, wall, buildS, nviol)
	// A probe the engine declares mandatory that stayed at zero is a harness defect.
	for _, name := range p.MustProbes {
		// (judged only when the batch was big enough for the probe to be expected)
		if a.probes[name] == 0 && a.faults[name] == 0 && a.runs >= min(b.Runs, 40) {
			fmt.Fprintf(os.Stderr, "HARNESS: mandatory probe %q never fired in %d runs\n", name, a.runs)
			if exit == 0 {
				return 2
			}
		}
	}
	return exit
}

func sortedCounts(m map[string]int) string {
	var ks []string
	for k := range m {
		ks = append(ks, k)
	}
	sort.Strings(ks)
	var sb strings.Builder
	for i, k := range ks {
		if i > 0 {
			sb.WriteString(" ")
		}
		fmt.Fprintf(&sb, "%s=%d", k, m[k])
	}
	return sb.String()
}

// ReplayFile is what a violation leaves behind.
type ReplayFile struct {
	Property  string          `json:"property"`
	Engine    string          `json:"engine"`
	Race      bool            `json:"race,omitempty"`
	Signature string          `json:"signature"`
	Oracle    string          `json:"oracle"`
	Message   string          `json:"message"`
	LogHash   string          `json:"log_hash"`
	Original  int             `json:"original_steps"`
	Minimised int             `json:"minimised_steps"`
	Execs     int             `json:"shrink_executions"`
	Plan      *core.Plan      `json:"plan"`
	Log       []string        `json:"log,omitempty"`
	Violation *core.Violation `json:"violation"`
	Unstable  string          `json:"unstable,omitempty"` // set when the code under test did not behave the same in every fresh process
	Crash     bool            `json:"crash,omitempty"`    // the violation is the death of the process executing this plan
}

// crashRec: a worker process died while this run was in progress.
type crashRec struct {
	seed uint64
	bin  string
	log  string
}

// looksLikeProcessDeath: the worker ended by a fatal runtime error or a signal,
// not by the harness's own exit paths (which print HARNESS:) or the watchdog.
func looksLikeProcessDeath(msg string) bool {
	if strings.Contains(msg, "watchdog:") || strings.Contains(msg, "HARNESS:") {
		return false
	}
	return strings.Contains(msg, "fatal error:") || strings.Contains(msg, "signal: killed") || strings.Contains(msg, "out of memory") || strings.Contains(msg, "cannot allocate memory")
}

func fatalLine(log string) string {
	for _, l := range strings.Split(log, "\n") {
		if strings.Contains(l, "fatal error:") || strings.Contains(l, "out of memory") || strings.Contains(l, "signal: killed") || strings.Contains(l, "cannot allocate memory") {
			return strings.TrimSpace(l)
		}
	}
	return "(no fatal runtime line in the worker's output)"
}

// dies executes a plan in a fresh worker process and reports whether the
// process died (no record, fatal error) and the fatal line.
func dies(bin string, plan *core.Plan, tmp, tag string) (bool, string) {
	r := runWorker(bin, &core.Request{Mode: "exec", Plan: plan}, tmp, tag, 5*time.Minute, 1)
	if r.err != nil && len(r.recs) == 0 && looksLikeProcessDeath(r.err.Error()) {
		return true, fatalLine(r.err.Error())
	}
	return false, ""
}

// confirmCrash pins a worker death on one run: the plan of the run in progress
// must kill two fresh processes; then single steps are tried alone (each step
// of these engines is self-contained) and the smallest killing plan is written
// as the replay file.
func confirmCrash(p *Prop, cr *crashRec, tier, tmp string) (string, string, error) {
	r := runWorker(cr.bin, &core.Request{Mode: "plan", Property: p.ID, Tier: tier, Seeds: []uint64{cr.seed}}, tmp, "crashplan", 2*time.Minute, 1)
	if r.err != nil || len(r.recs) != 1 || r.recs[0].Plan == nil {
		return "", "", fmt.Errorf("cannot regenerate the plan of seed %d: %v", cr.seed, r.err)
	}
	plan := r.recs[0].Plan
	var line string
	for i := 0; i < 2; i++ {
		d, l := dies(cr.bin, plan, tmp, fmt.Sprintf("crashconf%d", i))
		if !d {
			return "", "", fmt.Errorf("the run in progress (seed %d) does not kill a fresh process (attempt %d)", cr.seed, i+1)
		}
		line = l
	}
	orig := len(plan.Steps)
	small := plan
	for i := 0; i < len(plan.Steps) && i < 8; i++ {
		q := plan.Clone()
		q.Steps = []json.RawMessage{plan.Steps[i]}
		if d, l := dies(cr.bin, q, tmp, fmt.Sprintf("crashmin%d", i)); d {
			if d2, _ := dies(cr.bin, q, tmp, fmt.Sprintf("crashmin%db", i)); d2 {
				small, line = q, l
				break
			}
		}
	}
	msg := fmt.Sprintf("the process executing this plan is killed by the code under test (%s): no recover contains it, a node decoding / validating the same input dies", line)
	rf := &ReplayFile{Property: p.ID, Engine: small.Engine, Signature: p.ID + "/worker-process-killed", Oracle: "process-survives", Message: msg,
		Original: orig, Minimised: len(small.Steps), Plan: small, Crash: true,
		Violation: &core.Violation{Property: p.ID, Oracle: "process-survives", Signature: p.ID + "/worker-process-killed", Message: msg}}
	dir := filepath.Join(outRoot, "replays", p.ID)
	if err := os.MkdirAll(dir, 0755); err != nil {
		return "", "", err
	}
	path := filepath.Join(dir, fmt.Sprintf("%d-crash.json", cr.seed))
	b, _ := json.MarshalIndent(rf, "", " ")
	if err := os.WriteFile(path, b, 0644); err != nil {
		return "", "", err
	}
	return path, msg, nil
}

func minimiseAndWrite(bin string, p *Prop, vr *violRec, tmp string) (string, error) {
	if vr.plan == nil {
		return "", fmt.Errorf("violation %s reported without a plan", vr.v.Signature)
	}
	small := vr.plan
	execs := 0
	var out *core.Outcome
	if p.Race {
		// The race detector reports a frame pair once per process and its
		// bounded shadow history depends on everything the process executed
		// before: every candidate is judged in a fresh process, exactly as the
		// replay will be. Greedy one-step removal from the end, bounded.
		deadline := time.Now().Add(90 * time.Second)
		for i := len(small.Steps) - 1; i >= 0 && execs < 40 && time.Now().Before(deadline); i-- {
			q := small.Clone()
			q.Steps = append(append([]json.RawMessage(nil), small.Steps[:i]...), small.Steps[i+1:]...)
			r := runWorker(bin, &core.Request{Mode: "exec", Plan: q}, tmp, fmt.Sprintf("fs%d", i), 5*time.Minute, 1)
			execs++
			if r.err == nil && len(r.recs) == 1 && hasSig(r.recs[0].Outcome, p.ID, vr.v.Signature) {
				small = q
			}
		}
	} else {
		req := &core.Request{Mode: "shrink", Property: p.ID, Plan: vr.plan, Target: vr.v.Signature, MaxExec: 300}
		res := runWorker(bin, req, tmp, "shrink", 20*time.Minute, 1)
		if res.err == nil && len(res.recs) == 1 && hasSig(res.recs[0].Outcome, p.ID, vr.v.Signature) {
			small = res.recs[0].Plan
			execs = res.recs[0].Execs
			out = res.recs[0].Outcome
		}
	}
	// Replay in a fresh process: must reproduce signature and log hash twice.
	var hashes []string
	// Race checks: the execution replays exactly (same event log), but whether
	// the detector's bounded shadow history still holds the earlier access when
	// the later one happens varies from process to process; a report is never
	// a false positive, so the plan is re-run until it has shown up twice.
	attempts := 2
	if p.Race {
		attempts = 12
	}
	unstable, misses := false, 0
	for i := 0; i < attempts && len(hashes) < 2; i++ {
		r := runWorker(bin, &core.Request{Mode: "exec", Plan: small, KeepLog: true}, tmp, fmt.Sprintf("rp%d", i), 10*time.Minute, 1)
		if r.err != nil || len(r.recs) != 1 {
			return "", fmt.Errorf("replay run failed: %v", r.err)
		}
		if !hasSig(r.recs[0].Outcome, p.ID, vr.v.Signature) {
			if p.Race {
				continue
			}
			// The harness is deterministic (selftest), the code under test need
			// not be once it is broken: an outcome that depends on Go's map
			// iteration order shows in some processes only. Such a violation is
			// still a violation: re-run until it has shown twice, and say so in
			// the replay file.
			if !unstable {
				unstable = true
				attempts = 10
			}
			misses++
			continue
		}
		hashes = append(hashes, r.recs[0].Outcome.LogHash)
		out = r.recs[0].Outcome
	}
	if len(hashes) < 2 {
		return "", fmt.Errorf("replay diverged: violation %s showed up in %d of %d fresh processes (plan seed %d)", vr.v.Signature, len(hashes), attempts, small.Seed)
	}
	if hashes[0] != hashes[1] && !unstable {
		return "", fmt.Errorf("replay diverged: log hash %s vs %s for the same plan", hashes[0], hashes[1])
	}
	var viol *core.Violation
	for i := range out.Violations {
		if out.Violations[i].Signature == vr.v.Signature {
			viol = &out.Violations[i]
		}
	}
	engine := p.Engine
	if small.Engine != "" {
		engine = small.Engine
	}
	rf := &ReplayFile{Property: p.ID, Engine: engine, Race: p.Race, Signature: vr.v.Signature, Oracle: vr.v.Oracle, Message: viol.Message, LogHash: hashes[0],
		Original: len(vr.plan.Steps), Minimised: len(small.Steps), Execs: execs, Plan: small, Violation: viol, Log: out.Log}
	if unstable {
		rf.Unstable = fmt.Sprintf("the violation showed in %d of %d fresh processes running this plan: the harness is deterministic, the code under test is not under this plan (e.g. an outcome depending on map iteration order); `check replay` re-runs the plan up to 12 times", len(hashes), len(hashes)+misses)
	}
	if len(rf.Log) > 400 {
		rf.Log = rf.Log[len(rf.Log)-400:]
	}
	dir := filepath.Join(outRoot, "replays", p.ID)
	os.MkdirAll(dir, 0755)
	h := sha256.Sum256([]byte(vr.v.Signature))
	path := filepath.Join(dir, fmt.Sprintf("%d-%s.json", small.Seed, hex.EncodeToString(h[:4])))
	b, _ := json.MarshalIndent(rf, "", " ")
	if err := os.WriteFile(path, b, 0644); err != nil {
		return "", err
	}
	return path, nil
}

func hasSig(o *core.Outcome, prop, sig string) bool {
	if o == nil || o.HarnessErr != "" {
		return false
	}
	for _, v := range o.Violations {
		if v.Property == prop && v.Signature == sig {
			return true
		}
	}
	return false
}

func replay(path string) int {
	b, err := os.ReadFile(path)
	if err != nil {
		fmt.Fprintf(os.Stderr, "HARNESS: %v\n", err)
		return 2
	}
	var rf ReplayFile
	if err := json.Unmarshal(b, &rf); err != nil {
		fmt.Fprintf(os.Stderr, "HARNESS: %v\n", err)
		return 2
	}
	bin, err := buildEngine(rf.Engine, rf.Race)
	if err != nil {
		fmt.Fprintf(os.Stderr, "HARNESS: %v\n", err)
		return 2
	}
	tmp := tmpRoot()
	defer os.RemoveAll(tmp)
	if rf.Crash {
		if d, line := dies(bin, rf.Plan, tmp, "replaycrash"); d {
			fmt.Printf("VIOLATION property=%s replay=%s\n  signature=%s\n  the process executing the plan died: %s\n", rf.Property, path, rf.Signature, line)
			return 1
		}
		fmt.Printf("replay of %s: the process executing the plan survived\n", path)
		return 0
	}
	r := runWorker(bin, &core.Request{Mode: "exec", Plan: rf.Plan, KeepLog: true}, tmp, "replay", 10*time.Minute, 1)
	if r.err != nil || len(r.recs) != 1 {
		fmt.Fprintf(os.Stderr, "HARNESS: replay run failed: %v\n", r.err)
		return 2
	}
	// race replays: the execution is the same every time; the detector's
	// report of it is not (see minimiseAndWrite) - re-run until it shows
	for i := 0; (rf.Race || rf.Unstable != "") && i < 11 && !hasSig(r.recs[0].Outcome, rf.Property, rf.Signature); i++ {
		r2 := runWorker(bin, &core.Request{Mode: "exec", Plan: rf.Plan, KeepLog: true}, tmp, fmt.Sprintf("replay%d", i), 10*time.Minute, 1)
		if r2.err == nil && len(r2.recs) == 1 {
			r = r2
		}
	}
	o := r.recs[0].Outcome
	if os.Getenv("VERIF_SHOWLOG") != "" {
		fmt.Print(r.log)
		for _, l := range o.Log {
			fmt.Println(l)
		}
	}
	if hasSig(o, rf.Property, rf.Signature) {
		if o.LogHash != rf.LogHash {
			fmt.Printf("replay reproduced the violation but the event log differs (%s vs %s): code under test changed, or replay diverged\n", o.LogHash, rf.LogHash)
		}
		fmt.Printf("VIOLATION property=%s replay=%s\n  signature=%s\n", rf.Property, path, rf.Signature)
		for _, v := range o.Violations {
			if v.Signature == rf.Signature {
				fmt.Printf("  %s\n", v.Message)
			}
		}
		return 1
	}
	fmt.Printf("replay of %s: violation %s did not occur (log hash %s, recorded %s)\n", path, rf.Signature, o.LogHash, rf.LogHash)
	return 0
}

// selftest: determinism. Same seeds, separate processes, GOMAXPROCS 1/4/16,
// event-log hashes must be identical.
func selftest(id string, n int) int {
	p := findProp(id)
	if p == nil {
		fmt.Fprintf(os.Stderr, "unknown property %s\n", id)
		return 2
	}
	rc := selftestEngine(id, p.Engine, p.Race, n)
	if p.AlsoEngine != "" {
		if rc2 := selftestEngine(id, p.AlsoEngine, p.Race, n); rc2 > rc {
			rc = rc2
		}
	}
	return rc
}

func selftestEngine(id, engine string, race bool, n int) int {
	bin, err := buildEngine(engine, race)
	if err != nil {
		fmt.Fprintf(os.Stderr, "HARNESS: %v\n", err)
		return 2
	}
	tmp := tmpRoot()
	defer os.RemoveAll(tmp)
	base := envSeed()
	type key struct{ seed uint64 }
	ref := map[uint64]string{}
	bad := 0
	var mu sync.Mutex
	var wg sync.WaitGroup
	sem := make(chan struct{}, runtime.NumCPU())
	for rep, gmp := range []int{1, 4, 16, 1} {
		for chunk := 0; chunk < n; chunk += 5 {
			wg.Add(1)
			sem <- struct{}{}
			go func(rep, gmp, chunk int) {
				defer wg.Done()
				defer func() { <-sem }()
				req := &core.Request{Mode: "batch", Property: id, Tier: "quick"}
				// vary batch composition across repetitions so leaked state between runs shows
				for i := chunk; i < chunk+5 && i < n; i++ {
					req.Seeds = append(req.Seeds, core.Mix(base, uint64(i)))
				}
				if rep%2 == 1 {
					for l, r := 0, len(req.Seeds)-1; l < r; l, r = l+1, r-1 {
						req.Seeds[l], req.Seeds[r] = req.Seeds[r], req.Seeds[l]
					}
				}
				res := runWorker(bin, req, tmp, fmt.Sprintf("st-%d-%d", rep, chunk), 20*time.Minute, gmp)
				mu.Lock()
				defer mu.Unlock()
				if res.err != nil {
					fmt.Fprintf(os.Stderr, "HARNESS: %v\n", res.err)
					bad++
					return
				}
				for _, r := range res.recs {
					if r.Outcome.HarnessErr != "" {
						fmt.Printf("seed %d harness error: %s\n", r.Seed, r.Outcome.HarnessErr)
						bad++
					}
					if h, ok := ref[r.Seed]; ok {
						if h != r.Outcome.LogHash {
							fmt.Printf("NONDETERMINISM seed=%d GOMAXPROCS=%d rep=%d: %s vs %s\n", r.Seed, gmp, rep, h, r.Outcome.LogHash)
							bad++
						}
					} else {
						ref[r.Seed] = r.Outcome.LogHash
					}
				}
			}(rep, gmp, chunk)
		}
		wg.Wait()
	}
	fmt.Printf("selftest %s (engine %s): %d seeds x 4 processes (GOMAXPROCS 1/4/16/1, batch order varied), mismatches=%d\n", id, engine, len(ref), bad)
	if bad > 0 {
		return 2
	}
	return 0
}

func writeEvidence(p *Prop, tier string, seed uint64, a *agg, wall, buildS float64, nviol int, known []string, b Budget) error {
	samples := a.samples
	if len(samples) == 0 {
		samples = []interface{}{"(no sample emitted by engine)"}
	}
	runsPerHour := 0.0
	if wall-buildS > 0 {
		runsPerHour = float64(a.runs) / (wall - buildS) * 3600
	}
	cov := map[string]interface{}{
		"evaluations":         a.runs,
		"distinct_nontrivial": len(a.nontrivial),
		"rule":                p.Rule,
		"samples":             samples,
		"states":              len(a.states),
		"distinct_event_logs": len(a.logHashes),
		"steps":               a.steps,
		"oracle_comparisons":  a.checks,
		"oracle_comparisons_after_a_fault": a.checksPost,
		"fault_fire_counts":                a.faults,
		"probes":                           a.probes,
		"simulated_seconds":                a.simSeconds,
		"runs_per_hour":                    runsPerHour,
		"seeds":                            fmt.Sprintf("mix(VERIF_SEED=%d, i) for i in [0,%d)", seed, a.runs),
		"components_real":                  a.real,
		"components_stub":                  a.stub,
		"budget":                           b,
		"exhaustive":                       false,
	}
	if len(a.notes) > 0 {
		cov["notes"] = a.notes
	}
	if len(known) > 0 {
		cov["known_findings_reproduced"] = known
	}
	ev := map[string]interface{}{
		"property_id": p.ID,
		"tier":        tier,
		"seed":        int64(seed & 0x7fffffffffffffff),
		"level":       p.Level,
		"coverage":    cov,
		"assumptions": p.Assumptions,
		"wall_s":      wall,
		"violations":  nviol,
	}
	os.MkdirAll(filepath.Join(outRoot, "evidence"), 0755)
	jb, err := json.MarshalIndent(ev, "", " ")
	if err != nil {
		return err
	}
	return os.WriteFile(filepath.Join(outRoot, "evidence", p.ID+".json"), jb, 0644)
}
