package main

func init() {
	engineKinds["spvsim"] = "deterministic simulation of an SPV client and a serving node over a faulty link: real bloom filter (elanet/bloom behind elanet/filter), real merkle-block construction and verification, simulated chain of real transactions with reorganisations, plan-decided link corruption / Byzantine substitution, per-message single-bit enumeration; BIP37 reference model as oracle"
	engineKinds["auxsim"] = "deterministic simulation of a merged-mining pool and a corrupting relay / Byzantine pool in front of the real auxpow.AuxPow.Check: honest proofs (GenerateAuxPow and multi-level harness-built ones) delivered once intact and then with exactly one thing changed per delivery, single-bit enumeration over every committed field; merged-mining specification as reference model"
	props = append(props,
		&Prop{
			ID: "C08", Engine: "spvsim", Level: "exploration", DesignRef: "DESIGN.md section 5 C08",
			Technique: "deterministic simulation: seeded chains of blocks with 1..33 real transactions x seeded filters (match patterns) served as merkleblock messages over a simulated link; honest delivery checked for completeness (recovered set == matched set, root, per-tx branch), corrupted copies (bit flips, truncation, duplication, reordering, count corruption, Byzantine transplant/substitution, reorganisation) checked for soundness; every single-bit flip of every hash and flag bit enumerated per message for blocks <= 16 txs",
			LevelText: "Seeded search over (block shape, match pattern, filter, link fault); per message of a block with at most 16 transactions all single-bit corruptions of all hashes and all flag bits are enumerated. Both merkle-block builders (filter.NewMerkleBlock, bloom.NewMerkleBlock) and both checkers are run and cross-checked. Sampling of blocks/patterns, not proof.",
			LevelNote: "Flag bits of leaves are not covered by a merkle root in the BIP37 format: a flipped leaf flag verifies against the same root with exactly that genuine transaction added/dropped; the engine checks that exact shape and counts it (probes leaf-flag-flip-*) instead of reporting it. A full substitution by a proof of another block is rejected by the header-hash comparison of the harness's header-chain stub, not by the code under test. Transaction-count corruption is limited to bits 0..30 (bit 31 makes treeDepth loop forever, see engine NOTES.md).",
			Rule:      "one evaluation = one simulated run (chain, 2-9 filter/serve rounds, 3-12 corrupted copies per served message, up to 2 fully enumerated messages). Distinct = distinct event-log hash; non-trivial = at least one link/Byzantine/reorg fault fired and at least one oracle comparison ran after it.",
			Assumptions: []string{"SHA-256 collision resistance (a corrupted hash never verifies)", "the SPV client knows the header chain (stubbed)"},
			Quick:      Budget{Runs: 6000, WallS: 30, Batch: 20, RunTimeoutS: 60},
			Thorough:   Budget{Runs: 200000, WallS: 900, Batch: 50, RunTimeoutS: 60},
			MustProbes: []string{"message-fully-enumerated", "tree-depth-6", "tree-depth-0", "odd-width-block", "no-tx-matched", "all-tx-matched", "some-tx-matched", "link-hash-bitflip", "link-flag-bitflip", "byzantine-proof-of-other-block-under-this-header", "reorg"},
		},
		&Prop{
			ID: "C39", Engine: "spvsim", Level: "exploration", DesignRef: "DESIGN.md section 5 C39",
			Technique: "deterministic simulation: SPV client loads filters of every size (0/1 B..36 KB), hash count (1..50), tweak and update flag, built by the real client code or by an independent BIP37 reference client, watches addresses/outpoints/txids; the node filters a growing, reorganising chain of real transactions in block order (real MatchTxAndUpdate behind the production TxFilter); a protocol-level relevance model (with the history of auto-inserted outpoints) says which transactions must be reported",
			LevelText: "Seeded search over filter parameters x element sets x block histories (rescans, filteradd and filter reload in mid-stream, reorganisations). Every added element must match (client side, after the wire, node side, after every served block); every model-relevant transaction must be reported matched; filters built by the real code must equal the BIP37 reference filter bit for bit. Sampling, not proof.",
			LevelNote: "False positives are legal and only counted. The update flag is carried but ignored by the code (it always inserts outpoints, a superset of every flag's obligation; probe update-flag-none-but-node-inserted-outpoint). Tweak 0xffffffff selects the Elastos side-chain filter (match by tx type / output only) and is modelled as such. Empty filter with hash functions > 0 is outside the property (recorded only).",
			Rule:      "one evaluation = one simulated run (10-70 steps). Distinct = distinct event-log hash; non-trivial = at least one adversarial event fired (filter reload / filteradd in mid-stream, reorganisation, saturating filter, side-chain tweak) and at least one oracle comparison ran after it.",
			Assumptions: []string{"MurmurHash3 vectors of Bitcoin Core validate the reference"},
			Quick:      Budget{Runs: 8000, WallS: 30, Batch: 40, RunTimeoutS: 30},
			Thorough:   Budget{Runs: 500000, WallS: 900, Batch: 100, RunTimeoutS: 30},
			MustProbes: []string{"relevant-addr", "relevant-outpoint", "relevant-auto-outpoint", "relevant-txid", "false-positive-tx", "filter-reload-midstream", "filteradd-midstream", "reorg", "saturating-filter"},
		},
		&Prop{
			ID: "C10", Engine: "auxsim", Level: "exploration", DesignRef: "DESIGN.md section 5 C10",
			Technique: "deterministic simulation: an honest merged-mining pool (real GenerateAuxPow, and harness-built proofs with aux branch 0..12 and parent coinbase branch 0..8, arbitrary chain ids/nonces/script paddings) delivers proofs through a relay (real Serialize/Deserialize) to the real AuxPow.Check; a corrupting relay / Byzantine pool then changes exactly one thing per delivery (block hash, chain id, nonce, aux index low/high bits, wrong slot in a consistent tree, branch hashes and lengths, size field, marker absent/twice/gap/nibble-misaligned, byte order, parent merkle root/branch/index, commitment in a non-coinbase parent transaction, coinbase fields, script bits); for up to two proofs per run every single-bit change of every committed field is enumerated",
			LevelText: "Seeded search over proof shapes and single-field mutations; an independent merged-mining reference (slot derivation, merkle folding, script layout) decides which mutants are semantically different and must be rejected. Per enumerated proof every bit of block hash, aux branch, parent branch, parent root, aux index, chain id and coinbase script is flipped. Sampling, not proof.",
			LevelNote: "AuxPow.Check does not test proof of work (CheckProofOfWork is separate), so no parent mining is simulated. Mutants that map to the same slot (chain id/nonce collisions, bits of ParMerkleIndex above the branch length) are counted as equivalent and not judged. Panics of Check on crash shapes (empty coinbase inputs, script ending inside size/nonce, aux branch >= 32) are recorded as notes/probes, they belong to C03.",
			Rule:      "one evaluation = one simulated run (4-40 honest proofs, 6-30 single-change deliveries each, up to 2 proofs enumerated bit by bit). Distinct = distinct event-log hash; non-trivial = at least one corrupted delivery fired and its verdict was compared with the reference.",
			Assumptions: []string{"SHA-256 collision resistance"},
			Quick:      Budget{Runs: 8000, WallS: 28, Batch: 40, RunTimeoutS: 30},
			Thorough:   Budget{Runs: 400000, WallS: 900, Batch: 100, RunTimeoutS: 30},
			MustProbes: []string{"honest-generateauxpow", "honest-built-auxbranch-8", "honest-built-auxbranch-1", "honest-built-parbranch-4", "proof-fully-enumerated", "wrong-slot", "aux-index-changed", "marker-twice", "marker-not-followed-by-root", "marker-nibble-misaligned", "commitment-tx-not-at-coinbase-position", "chain-id-changed", "nonce-changed"},
		},
	)
}
