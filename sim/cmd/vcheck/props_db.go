package main

func init() {
	engineKinds["dbsim"] = "deterministic simulation of database/ffldb: real ffldb+treap+goleveldb over an interposed flat-file layer, fake clock, seeded op/fault plans, KV reference model, process-stop enumeration"
	props = append(props,
		&Prop{
			ID: "C16", Engine: "dbsim", Level: "exploration", DesignRef: "DESIGN.md section 5 C16, Appendix A.1",
			Technique: "deterministic simulation: seeded op sequences x flush knobs x simulated time x injected I/O errors x readers scheduled inside commits, checked step by step against an ordered-map reference model",
			LevelText: "Seeded search over operation/fault plans against the real ffldb; every read, cursor walk and post-commit full scan is compared with an in-memory ordered-map model; snapshot readers (including ones scheduled at named points inside a writer's commit) must see exactly one version. Sampling, not proof.",
			LevelNote: "Trusted: goleveldb, the Go runtime, the model (~150 lines). Keys/buckets use disjoint name alphabets; mutation inside ForEach is never generated (documented unsafe).",
			Rule:      "one evaluation = one simulated run (plan of 8-120 steps). Distinct = distinct event-log hash; non-trivial = at least one fault fired (I/O error, reader scheduled inside a commit) and at least one oracle comparison ran after it.",
			Assumptions: []string{"goleveldb transaction commit is atomic", "testing/synctest fake clock drives time.Now/Since in ffldb"},
			Quick:      Budget{Runs: 2500, WallS: 45, Batch: 40, RunTimeoutS: 30},
			Thorough:   Budget{Runs: 400000, WallS: 900, Batch: 100, RunTimeoutS: 30},
			MustProbes: []string{"observed-flushed", "observed-cached", "clean-reopen", "snapshot-read-after-later-commit"},
		},
		&Prop{
			ID: "C17", Engine: "dbsim", Level: "fault_enumeration", DesignRef: "DESIGN.md section 5 C17",
			Technique: "deterministic simulation with crash-point enumeration: every interposed flat-file mutation and named point of each seeded workload gets its own execution with a process stop there (torn write variants, second stop during recovery), recovered by the real openDB/reconcileDB",
			LevelText: "Per generated workload, every crash position (each WriteAt/Sync/Truncate/open/delete of the flat files and each named point around the leveldb commits) is enumerated: the simulated process stops there, the data directory snapshot is reopened with the real recovery code, and the content must equal exactly one model version between the last observed-flushed one and the interrupted commit; present blocks must read back byte-exact; later commits must work. Workloads themselves are sampled by seed.",
			LevelNote: "Two fault models per crash position: process stop (completed writes survive, the in-flight write may be torn) and power loss (of every flat file only the bytes covered by a completed Sync survive, while goleveldb's own files are kept as written - the write-back order that makes metadata run ahead of block data). goleveldb's own files are trusted. Workloads exceeding the scenario cap are stride-sampled and counted separately (probe workload-sampled-not-exhaustive).",
			Rule:      "one evaluation = one workload with all its crash positions executed (probe crash-executions counts the executions). Distinct = distinct event-log hash; non-trivial = at least one process stop fired and the recovery oracle ran after it.",
			Assumptions: []string{"goleveldb transaction commit is atomic and its files survive a process stop and a power loss (only the flat files lose unsynced bytes)"},
			Quick:      Budget{Runs: 64, WallS: 40, Batch: 2, RunTimeoutS: 120},
			Thorough:   Budget{Runs: 6000, WallS: 1200, Batch: 4, RunTimeoutS: 300},
			MustProbes: []string{"crash-executions", "reconcile-repaired-files", "recovered-to-interrupted-commit", "recovered-to-last-commit"},
		},
		&Prop{
			ID: "C18", Engine: "dbsim", Level: "exploration", DesignRef: "DESIGN.md section 5 C18",
			Technique: "deterministic simulation: seeded block-store workloads x tiny file sizes (rollover, >25 files) x reopen x I/O errors x readers inside commits; every fetch/region compared with the stored bytes",
			LevelText: "Seeded block workloads against the real flat-file store with file sizes down to 256 bytes; whole-block, header and region reads (inside, ending at, crossing and overflowing the block end) inside the writing transaction, after commit, after reopen and from readers scheduled inside commits must return exactly the stored slice or ErrBlockRegionInvalid.",
			LevelNote: "Trusted: goleveldb, model. Block contents are a pure function of (seed,id).",
			Rule:      "one evaluation = one simulated run. Distinct = distinct event-log hash; non-trivial = at least one fault fired and an oracle comparison ran after it.",
			Assumptions: []string{"goleveldb transaction commit is atomic"},
			Quick:      Budget{Runs: 2500, WallS: 45, Batch: 40, RunTimeoutS: 30},
			Thorough:   Budget{Runs: 300000, WallS: 900, Batch: 100, RunTimeoutS: 30},
			MustProbes: []string{"region-out-of-range-requested", "clean-reopen"},
		},
	)
}
